package core

import (
	"bufio"
	"bytes"
	"context"
	"encoding/json"
	"fmt"
	"io"
	"os"
	"os/exec"
	"path/filepath"
	"sort"
	"strconv"
	"strings"
	"sync"
	"time"
)

type Driver struct {
	Prop    string
	Tier    string
	Seed    int64
	Exe     string
	Home    string // /verif
	Work    string // /verif/.work
	Par     int
	Runs    int // override
	KeepAll bool
	Budget  time.Duration // wall budget for the exploration phase (0 = none)
	Out     *os.File
	probe   string
	genMu    sync.Mutex
	genCache map[int]*genChunk
}

// Probe runs `simworker probe` in a fresh process.
func (d *Driver) Probe() error {
	cmd := exec.Command(d.Exe, "probe")
	out, err := cmd.Output()
	if err != nil {
		return fmt.Errorf("probe: %w", err)
	}
	d.probe = strings.TrimSpace(string(out))
	return nil
}

type found struct {
	sig      string
	sc       *Scenario
	res      *Result
	count    int
	firstIdx int
}

type agg struct {
	mu        sync.Mutex
	evals     int
	keys      map[string]struct{}
	nontriv   map[string]struct{}
	ntCases   int
	states    map[string]struct{}
	ilv       map[uint64]struct{}
	probes    map[string]int
	faults    map[string]int
	extra     map[string]int
	steps     uint64
	switches  int
	inOpSw    int
	ops       int
	simNanos  int64
	slots     int
	samples   []any
	found     map[string]*found
	harness   []string
	hangs     int
	exhaustOK int
	canon     map[string]map[string]int // key -> hash -> first run index
}

func newAgg() *agg {
	return &agg{keys: map[string]struct{}{}, nontriv: map[string]struct{}{}, states: map[string]struct{}{},
		ilv: map[uint64]struct{}{}, probes: map[string]int{}, faults: map[string]int{}, extra: map[string]int{},
		found: map[string]*found{}, canon: map[string]map[string]int{}}
}

func (a *agg) add(idx int, resp *Response) {
	a.mu.Lock()
	defer a.mu.Unlock()
	r := resp.Result
	a.evals++
	a.keys[r.Key] = struct{}{}
	if r.Nontrivial {
		if _, dup := a.nontriv[r.Key]; !dup {
			a.nontriv[r.Key] = struct{}{}
			if r.Cases > 0 {
				a.ntCases += r.Cases
			} else {
				a.ntCases++
			}
		}
	}
	for _, s := range r.States {
		a.states[s] = struct{}{}
	}
	if r.Sched.InOpSw > 0 {
		a.ilv[r.Sched.IlvHash] = struct{}{}
	}
	for k, v := range r.Probes {
		a.probes[k] += v
	}
	for k, v := range r.Faults {
		a.faults[k] += v
	}
	for k, v := range r.Extra {
		a.extra[k] += v
	}
	a.steps += r.Sched.Steps
	a.switches += r.Sched.Switches
	a.inOpSw += r.Sched.InOpSw
	a.ops += r.Ops
	a.simNanos += r.SimNanos
	a.slots += r.Slots
	if r.Exhaustive {
		a.exhaustOK++
	}
	if r.Sample != nil && len(a.samples) < 4 {
		a.samples = append(a.samples, r.Sample)
	}
	if r.Harness != "" {
		a.harness = append(a.harness, fmt.Sprintf("run %d: %s", idx, r.Harness))
	}
	for k, h := range r.Canon {
		m := a.canon[k]
		if m == nil {
			m = map[string]int{}
			a.canon[k] = m
		}
		if old, ok := m[h]; !ok || idx < old {
			m[h] = idx
		}
	}
	for _, v := range r.Violations {
		f := a.found[v.Sig]
		if f == nil {
			for k, g := range a.found {
				if SigMatch(k, v.Sig) {
					f = g
					break
				}
			}
		}
		if f == nil {
			a.found[v.Sig] = &found{sig: v.Sig, sc: resp.Scenario, res: r, count: 1, firstIdx: idx}
		} else {
			f.count++
			if idx < f.firstIdx {
				f.firstIdx, f.sc, f.res = idx, resp.Scenario, r
			}
		}
	}
}

func (d *Driver) workerCmd(ctx context.Context, gomaxprocs int, initSeed uint64) *exec.Cmd {
	cmd := exec.CommandContext(ctx, d.Exe, "worker")
	racedir := filepath.Join(d.Work, "race")
	os.MkdirAll(racedir, 0o755)
	env := []string{}
	for _, e := range os.Environ() {
		if strings.HasPrefix(e, "GORACE=") || strings.HasPrefix(e, "GOMAXPROCS=") || strings.HasPrefix(e, "VERIF_PROBE=") || strings.HasPrefix(e, "VERIF_INIT_SEED=") {
			continue
		}
		env = append(env, e)
	}
	env = append(env, "VERIF_PROBE="+d.probe)
	env = append(env, fmt.Sprintf("VERIF_INIT_SEED=%d", initSeed)) // map order during package initialisation (0: sorted)
	env = append(env, "GORACE=halt_on_error=0 exitcode=0 atexit_sleep_ms=0 log_path="+filepath.Join(racedir, "r"))
	if gomaxprocs > 0 {
		env = append(env, fmt.Sprintf("GOMAXPROCS=%d", gomaxprocs))
	} else {
		env = append(env, "GOMAXPROCS=2")
	}
	cmd.Env = env
	return cmd
}

// runRequests executes reqs in one fresh worker process; responses come back in order.
// A worker that dies is reported through died=true with its stderr.
func (d *Driver) runRequests(reqs []*Request, gomaxprocs int) (resps []*Response, died bool, stderr string) {
	// wall-clock watchdog of the harness, generous: hangs of the code under test are found by step budgets;
	// this only ends workers that got stuck for reasons of the harness or the machine (exit status 2)
	wd := 45 * time.Minute
	if d.Tier == "thorough" {
		wd = 3 * time.Hour
	}
	ctx, cancel := context.WithTimeout(context.Background(), wd)
	defer cancel()
	// the order of map iteration during package initialisation is part of the scenario: a function of its seed
	var initSeed uint64
	if len(reqs) > 0 && !reqs[0].GenOnly {
		if reqs[0].Scenario != nil {
			initSeed = reqs[0].Scenario.RunSeed | 1
		} else {
			initSeed = SplitMix(uint64(reqs[0].VerifSeed), uint64(reqs[0].Idx)*2654435761+99) | 1
		}
	}
	cmd := d.workerCmd(ctx, gomaxprocs, initSeed)
	var in bytes.Buffer
	enc := json.NewEncoder(&in)
	for _, r := range reqs {
		enc.Encode(r)
	}
	cmd.Stdin = &in
	var errb bytes.Buffer
	cmd.Stderr = &errb
	outp, err := cmd.StdoutPipe()
	if err != nil {
		return nil, true, err.Error()
	}
	if err := cmd.Start(); err != nil {
		return nil, true, err.Error()
	}
	pid := cmd.Process.Pid
	sc := bufio.NewReaderSize(outp, 1<<20)
	dec := json.NewDecoder(sc)
	for {
		var resp Response
		if err := dec.Decode(&resp); err != nil {
			if err != io.EOF {
				cmd.Process.Kill() // protocol garbage: do not leave the worker blocked on its pipe
			}
			break
		}
		resps = append(resps, &resp)
	}
	werr := cmd.Wait()
	os.Remove(filepath.Join(d.Work, "race", fmt.Sprintf("r.%d", pid)))
	if ctx.Err() != nil {
		// the wall-clock watchdog of the harness fired (hangs of the code under test are found by step
		// budgets long before): harness trouble, never a verdict
		return resps, true, watchdogMark + " worker killed by the wall-clock watchdog\n" + tail(errb.String(), 2000)
	}
	if werr != nil || (len(resps) < len(reqs) && (len(resps) == 0 || !resps[len(resps)-1].Stop)) {
		return resps, true, tail(errb.String(), 6000)
	}
	return resps, false, ""
}

const watchdogMark = "HARNESS-WATCHDOG:"

func tail(s string, n int) string {
	if len(s) > n {
		return "...\n" + s[len(s)-n:]
	}
	return s
}

// RunScenario executes an explicit scenario in a fresh process.
func (d *Driver) RunScenario(sc *Scenario, gomaxprocs int) (*Result, string) {
	resps, died, stderr := d.runRequests([]*Request{{Scenario: sc, Idx: sc.Run}}, gomaxprocs)
	if len(resps) == 0 {
		if died && strings.HasPrefix(stderr, watchdogMark) {
			return nil, stderr
		}
		if died {
			return abortResult(sc, stderr), ""
		}
		return nil, "no response from worker"
	}
	return resps[0].Result, ""
}

func abortResult(sc *Scenario, stderr string) *Result {
	r := &Result{}
	cls := "runtime-abort"
	if strings.Contains(stderr, "fatal error: concurrent map") {
		cls = "runtime-abort:concurrent-map"
	}
	r.Violations = []Violation{{Sig: cls, Detail: "worker process died", Report: stderr}}
	return r
}

func (d *Driver) explore(e Engine, n int, a *agg) (done int, stopped bool) {
	per := e.PerProcess(d.Prop)
	if per < 1 {
		per = 1
	}
	type job struct{ lo, hi int }
	jobs := make(chan job, 1024)
	var wg sync.WaitGroup
	start := time.Now()
	var stop bool
	var mu sync.Mutex
	doneCount := 0
	for w := 0; w < d.Par; w++ {
		wg.Add(1)
		go func() {
			defer wg.Done()
			for j := range jobs {
				mu.Lock()
				s := stop
				mu.Unlock()
				if s {
					continue
				}
				lo := j.lo
				for lo < j.hi {
					var reqs []*Request
					for i := lo; i < j.hi; i++ {
						reqs = append(reqs, &Request{Property: d.Prop, VerifSeed: d.Seed, Tier: d.Tier, Idx: i, WantScenario: i%97 == 0})
					}
					if per == 1 && len(reqs) == 1 {
						// two stages: the scenario comes from a generator process, the execution happens
						// in a process that has done nothing before
						if sc := d.pregenerated(reqs[0].Idx); sc != nil {
							reqs[0] = &Request{Scenario: sc, Idx: reqs[0].Idx, WantScenario: reqs[0].WantScenario}
						}
					}
					resps, died, stderr := d.runRequests(reqs, 0)
					for _, r := range resps {
						a.add(r.Idx, r)
					}
					mu.Lock()
					doneCount += len(resps)
					mu.Unlock()
					lo += len(resps)
					if died && lo < j.hi {
						// the scenario after the last response killed the worker: run it alone
						one, died1, stderr1 := d.runRequests([]*Request{{Property: d.Prop, VerifSeed: d.Seed, Tier: d.Tier, Idx: lo, WantScenario: true}}, 0)
						if len(one) == 1 {
							a.add(lo, one[0])
						} else if died1 && strings.HasPrefix(stderr1, watchdogMark) {
							a.mu.Lock()
							a.harness = append(a.harness, fmt.Sprintf("run %d: %s", lo, tail(stderr1, 300)))
							a.mu.Unlock()
						} else if died1 {
							// reproducible death: a runtime abort of the code under test
							gen, _, _ := d.runRequests([]*Request{{Property: d.Prop, VerifSeed: d.Seed, Tier: d.Tier, Idx: lo, WantScenario: true}}, 0)
							_ = gen
							sc := &Scenario{Property: d.Prop, Run: lo, Note: "worker died; scenario is regenerated from (property, verif_seed, tier, idx)"}
							a.add(lo, &Response{Idx: lo, Result: abortResult(sc, stderr1), Scenario: nil})
						} else {
							a.mu.Lock()
							a.harness = append(a.harness, fmt.Sprintf("run %d: worker died in a batch but not alone: %s", lo, tail(stderr, 2000)))
							a.mu.Unlock()
						}
						mu.Lock()
						doneCount++
						mu.Unlock()
						lo++
					} else if len(resps) == 0 {
						a.mu.Lock()
						a.harness = append(a.harness, fmt.Sprintf("run %d: worker returned nothing: %s", lo, tail(stderr, 2000)))
						a.mu.Unlock()
						lo = j.hi
					}
				}
				a.mu.Lock()
				nf := len(a.found)
				nh := len(a.harness)
				a.mu.Unlock()
				mu.Lock()
				if nh > 0 || (nf > 0 && d.Tier == "thorough" && time.Since(start) > 60*time.Second) ||
					(d.Budget > 0 && time.Since(start) > d.Budget) {
					stop = true
				}
				mu.Unlock()
			}
		}()
	}
	for lo := 0; lo < n; lo += per {
		hi := lo + per
		if hi > n {
			hi = n
		}
		jobs <- job{lo, hi}
	}
	close(jobs)
	wg.Wait()
	return doneCount, stop
}

// pregenerated returns scenario idx, generated in a separate generator process (in chunks).
func (d *Driver) pregenerated(idx int) *Scenario {
	const chunk = 128
	base := idx / chunk * chunk
	d.genMu.Lock()
	ch, ok := d.genCache[base]
	if !ok {
		ch = &genChunk{done: make(chan struct{})}
		if d.genCache == nil {
			d.genCache = map[int]*genChunk{}
		}
		d.genCache[base] = ch
		d.genMu.Unlock()
		var reqs []*Request
		for i := base; i < base+chunk; i++ {
			reqs = append(reqs, &Request{Property: d.Prop, VerifSeed: d.Seed, Tier: d.Tier, Idx: i, GenOnly: true})
		}
		resps, _, _ := d.runRequests(reqs, 0)
		ch.scs = map[int]*Scenario{}
		for _, r := range resps {
			if r.Scenario != nil {
				ch.scs[r.Idx] = r.Scenario
			}
		}
		close(ch.done)
	} else {
		d.genMu.Unlock()
	}
	<-ch.done
	sc := ch.scs[idx]
	d.genMu.Lock()
	ch.used++
	if ch.used >= chunk {
		delete(d.genCache, base) // every scenario of the chunk has been handed out
	}
	d.genMu.Unlock()
	return sc
}

type genChunk struct {
	done chan struct{}
	scs  map[int]*Scenario
	used int
}

// KnownFindings file.
type Finding struct {
	Property  string `json:"property"`
	Signature string `json:"signature"`
	What      string `json:"what"`
	Status    string `json:"status"` // known | fixed
	Commit    string `json:"commit,omitempty"`
	Scenario  string `json:"scenario,omitempty"`
}

type FindingsFile struct {
	Findings []Finding `json:"findings"`
}

func (d *Driver) loadFindings() FindingsFile {
	var ff FindingsFile
	b, err := os.ReadFile(filepath.Join(d.Home, "known_findings.json"))
	if err == nil {
		json.Unmarshal(b, &ff)
	}
	return ff
}

// shrink minimises sc while signature sig persists. Candidates run in fresh processes.
func (d *Driver) shrink(e Engine, sc *Scenario, sig string, stats *shrinkStats) *Scenario {
	cur := sc
	deadline := time.Now().Add(45 * time.Second)
	for round := 0; round < 200 && time.Now().Before(deadline); round++ {
		cands := e.Shrinks(cur)
		if len(cands) == 0 {
			break
		}
		progressed := false
		for lo := 0; lo < len(cands) && !progressed && time.Now().Before(deadline); lo += d.Par {
			hi := lo + d.Par
			if hi > len(cands) {
				hi = len(cands)
			}
			ok := make([]bool, hi-lo)
			var wg sync.WaitGroup
			for i := lo; i < hi; i++ {
				wg.Add(1)
				go func(i int) {
					defer wg.Done()
					r, herr := d.RunScenario(cands[i], 0)
					if herr == "" && r != nil && r.Has(sig) && r.Harness == "" {
						ok[i-lo] = true
					}
				}(i)
			}
			wg.Wait()
			stats.Tried += hi - lo
			for i := lo; i < hi; i++ {
				if ok[i-lo] {
					cur = cands[i]
					stats.Accepted++
					progressed = true
					break
				}
			}
		}
		if !progressed {
			break
		}
	}
	return cur
}

// shrinkBudget bounds the time a check spends minimising (all signatures together).
func shrinkBudget(tier string) time.Duration {
	if tier == "thorough" {
		return 20 * time.Minute
	}
	return 3 * time.Minute
}

type shrinkStats struct {
	Tried    int `json:"candidates_tried"`
	Accepted int `json:"reductions_accepted"`
}

// Check runs the tier for the property and returns the exit status.
func (d *Driver) Check() int {
	t0 := time.Now()
	e, err := EngineFor(d.Prop)
	if err != nil {
		fmt.Fprintln(os.Stderr, "verif:", err)
		return 2
	}
	n := e.Runs(d.Prop, d.Tier)
	if d.Runs > 0 {
		n = d.Runs
	}
	os.RemoveAll(filepath.Join(d.Work, "race"))
	a := newAgg()
	done, stopped := d.explore(e, n, a)
	exploreWall := time.Since(t0)

	if len(a.harness) > 0 {
		for _, h := range a.harness {
			fmt.Fprintln(os.Stderr, "verif: harness trouble:", h)
		}
		fmt.Fprintln(os.Stderr, "verif: no verdict (exit 2)")
		return 2
	}

	// determinism sample: re-execute a few runs under other GOMAXPROCS and compare logs
	detChecked, detBad := d.determinismSample(e, n, done)
	if detBad != "" && len(a.found) == 0 {
		fmt.Fprintln(os.Stderr, "verif: nondeterminism in the simulator (harness defect, no verdict):", detBad)
		return 2
	}
	if detBad != "" {
		// Violations were found as well. Each is reported only if it reproduces in fresh processes
		// (below), which is what makes a report trustworthy; the disagreement is printed as a warning.
		fmt.Fprintln(os.Stderr, "verif: warning: some runs were not repeatable across GOMAXPROCS settings:", detBad)
	}

	// results that must agree across runs (determinism across histories)
	crossChecked, crossErr := d.crossRun(e, a)
	if crossErr != "" {
		fmt.Fprintln(os.Stderr, "verif: harness trouble:", crossErr)
		return 2
	}
	a.extra["cross_run_keys_compared"] = crossChecked

	// violations
	ff := d.loadFindings()
	sigs := make([]string, 0, len(a.found))
	for s := range a.found {
		sigs = append(sigs, s)
	}
	sort.Slice(sigs, func(i, j int) bool { return a.found[sigs[i]].firstIdx < a.found[sigs[j]].firstIdx })
	exit := 0
	nviol := 0
	unconfirmed := 0
	var sstats shrinkStats
	os.MkdirAll(filepath.Join(d.Home, "replays"), 0o755)
	var reported []map[string]any
	for k, sig := range sigs {
		f := a.found[sig]
		sc := f.sc
		if sc == nil {
			// regenerate (worker died before answering)
			resps, _, _ := d.runRequests([]*Request{{Property: d.Prop, VerifSeed: d.Seed, Tier: d.Tier, Idx: f.firstIdx, WantScenario: true}}, 0)
			if len(resps) == 1 && resps[0].Scenario != nil {
				sc = resps[0].Scenario
			} else {
				sc = e.Generate(d.Prop, d.Seed, d.Tier, f.firstIdx)
			}
		}
		// follow the recorded schedule from now on
		exp := *sc
		if len(f.res.Sched.Schedule) > 0 && !f.res.Sched.Truncated {
			exp.Sched.Policy = "explicit"
			exp.Sched.Schedule = f.res.Sched.Schedule
			if r, herr := d.RunScenario(&exp, 0); herr != "" || r == nil || !r.Has(sig) {
				exp = *sc
			}
		}
		min := &exp
		if k < 12 && time.Since(t0) < shrinkBudget(d.Tier) {
			min = d.shrink(e, &exp, sig, &sstats)
		}
		min.Expect = sig
		// confirm in fresh processes. A deterministic violation reproduces every time; a data race is
		// reported by the detector with high but not full probability per execution (bounded shadow
		// history), so up to 5 attempts may be used to see it twice.
		confirm := func(s *Scenario) (int, *Result) {
			ok := 0
			var last *Result
			attempts := 2
			if strings.HasPrefix(sig, "race:") {
				attempts = 5
			}
			for i := 0; i < attempts && ok < 2; i++ {
				r, herr := d.RunScenario(s, []int{1, 4, 2, 16, 2}[i])
				if herr == "" && r != nil && r.Has(sig) {
					ok++
					last = r
				}
			}
			return ok, last
		}
		ok, last := confirm(min)
		if ok < 2 && min != &exp {
			// the minimised scenario is not stable: fall back to the scenario as found
			orig := *sc
			orig.Expect = sig
			min = &orig
			ok, last = confirm(min)
		}
		if ok < 2 {
			// not reproducible in fresh processes: never reported as a violation. If nothing else is
			// confirmed either, the check ends without a verdict (exit status 2).
			ub, _ := json.MarshalIndent(min, "", " ")
			os.WriteFile(filepath.Join(d.Home, "replays", fmt.Sprintf("unreproduced-%s-%d.json", d.Prop, k)), ub, 0o644)
			fmt.Fprintf(os.Stderr, "verif: %q (run %d) did not reproduce on replay (%d/2); not reported\n", sig, f.firstIdx, ok)
			unconfirmed++
			continue
		}
		name := fmt.Sprintf("replays/%s-%d-%d.json", d.Prop, d.Seed, k)
		b, _ := json.MarshalIndent(min, "", " ")
		os.WriteFile(filepath.Join(d.Home, name), b, 0o644)
		detail := ""
		for _, v := range last.Violations {
			if SigMatch(v.Sig, sig) {
				detail = v.Detail
				if v.Report != "" {
					os.WriteFile(filepath.Join(d.Home, name+".report.txt"), []byte(v.Report), 0o644)
				}
			}
		}
		known := false
		for _, kf := range ff.Findings {
			if kf.Property == d.Prop && SigMatch(kf.Signature, sig) && kf.Status == "known" {
				fmt.Fprintf(d.Out, "KNOWN-FINDING: property=%s %s [%s]\n", d.Prop, kf.What, sig)
				known = true
			}
		}
		reported = append(reported, map[string]any{"signature": sig, "runs_hit": f.count, "first_run": f.firstIdx, "replay": name, "known": known, "detail": detail})
		if known {
			continue
		}
		nviol++
		exit = 1
		fmt.Fprintf(d.Out, "VIOLATION property=%s replay=%s\n", d.Prop, name)
		fmt.Fprintf(d.Out, "  signature: %s (seen in %d of %d runs, first in run %d)\n  %s\n", sig, f.count, done, f.firstIdx, strings.ReplaceAll(detail, "\n", "\n  "))
	}

	if detBad != "" && nviol == 0 && exit == 0 {
		fmt.Fprintln(os.Stderr, "verif: nondeterminism in the simulator and no reproducible violation: no verdict")
		return 2
	}
	if unconfirmed > 0 && nviol == 0 && exit == 0 {
		fmt.Fprintln(os.Stderr, "verif: violations were seen during exploration but none reproduced on replay: harness trouble, no verdict")
		return 2
	}
	wall := time.Since(t0).Seconds()
	d.writeEvidence(e, a, done, n, stopped, wall, exploreWall.Seconds(), nviol, detChecked, sstats, reported)
	fmt.Fprintf(d.Out, "verif: %s %s seed=%d: %d runs, %d distinct non-trivial, %d violations, %.1fs\n", d.Prop, d.Tier, d.Seed, done, a.ntCases, nviol, wall)
	return exit
}

// crossRun compares results with the same key across all runs of the batch. For a
// key with more than one result, the result of a history of length one in a fresh
// process is the reference; every run that deviates from it is re-executed with
// the reference attached, which makes the deviation a violation of that run.
func (d *Driver) crossRun(e Engine, a *agg) (int, string) {
	ce, ok := e.(CanonEngine)
	if !ok {
		return 0, ""
	}
	keys := make([]string, 0, len(a.canon))
	for k := range a.canon {
		keys = append(keys, k)
	}
	sort.Strings(keys)
	handled := 0
	for _, k := range keys {
		hs := a.canon[k]
		if len(hs) < 2 {
			continue
		}
		if handled >= 8 {
			break
		}
		handled++
		solo := ce.SoloScenario(d.Prop, d.Seed, k)
		if solo == nil {
			return len(keys), "no solo scenario for key " + k
		}
		sr, herr := d.RunScenario(solo, 0)
		if herr != "" || sr == nil {
			return len(keys), "solo scenario did not run: " + herr
		}
		ref, ok := sr.Canon[k]
		if !ok {
			// the solo call itself aborted: totality violations are reported by the runs themselves
			continue
		}
		for h, idx := range hs {
			if h == ref {
				continue
			}
			resps, _, _ := d.runRequests([]*Request{{Property: d.Prop, VerifSeed: d.Seed, Tier: d.Tier, Idx: idx, WantScenario: true}}, 0)
			if len(resps) != 1 || resps[0].Scenario == nil {
				continue
			}
			sc := resps[0].Scenario
			sc.ExpectCanon = map[string]string{k: ref}
			r2, herr := d.RunScenario(sc, 0)
			if herr != "" || r2 == nil {
				continue
			}
			a.add(idx, &Response{Idx: idx, Result: &Result{Key: r2.Key, Violations: r2.Violations, Sched: r2.Sched}, Scenario: sc})
			a.evals-- // not a new evaluation
		}
	}
	return len(keys), ""
}

// detSamples is the number of runs re-executed under GOMAXPROCS 1, 4 and 16 by the determinism
// self-test of every check (VERIF_DET raises it for a dedicated self-test).
func detSamples() int {
	if v, err := strconv.Atoi(os.Getenv("VERIF_DET")); err == nil && v > 0 {
		return v
	}
	return 24
}

func (d *Driver) determinismSample(e Engine, n, done int) (int, string) {
	checked := 0
	var idxs []int
	for i := 0; i < n && i < done; i++ {
		if SplitMix(uint64(d.Seed), uint64(i))%40 == 0 || detSamples() > 24 {
			idxs = append(idxs, i)
		}
		if len(idxs) >= detSamples() {
			break
		}
	}
	if len(idxs) == 0 && done > 0 {
		idxs = []int{0}
	}
	type out struct{ h, o string }
	bad := ""
	var mu sync.Mutex
	var wg sync.WaitGroup
	sem := make(chan struct{}, d.Par)
	for _, i := range idxs {
		wg.Add(1)
		sem <- struct{}{}
		go func(i int) {
			defer wg.Done()
			defer func() { <-sem }()
			var outs []out
			for _, gmp := range []int{1, 4, 16} {
				resps, _, _ := d.runRequests([]*Request{{Property: d.Prop, VerifSeed: d.Seed, Tier: d.Tier, Idx: i}}, gmp)
				if len(resps) != 1 {
					outs = append(outs, out{"died", ""})
					continue
				}
				r := resps[0].Result
				var ss []string
				for _, s := range r.Sigs() {
					if strings.HasPrefix(s, "race:") || strings.HasSuffix(s, ":race") {
						continue // whether and with which access pair the detector reports a race varies per execution
					}
					ss = append(ss, s)
				}
				outs = append(outs, out{r.LogHash, strings.Join(r.Outcomes, ";") + "|" + strings.Join(ss, ";")})
			}
			mu.Lock()
			checked++
			for k := 1; k < len(outs); k++ {
				if outs[k] != outs[0] && bad == "" {
					bad = fmt.Sprintf("run %d: GOMAXPROCS=1 gave (%s, %s) but GOMAXPROCS=%d gave (%s, %s)", i, outs[0].h, outs[0].o, []int{1, 4, 16}[k], outs[k].h, outs[k].o)
					os.WriteFile(filepath.Join(d.Home, "replays", fmt.Sprintf("nondeterministic-%s-run%d.txt", d.Prop, i)), []byte(bad), 0o644)
				}
			}
			mu.Unlock()
		}(i)
	}
	wg.Wait()
	return checked, bad
}

func (d *Driver) writeEvidence(e Engine, a *agg, done, planned int, stopped bool, wall, exploreWall float64, nviol, detChecked int, ss shrinkStats, reported []map[string]any) {
	desc := e.Describe(d.Prop)
	cov := map[string]any{
		"evaluations":         done,
		"distinct_nontrivial": a.ntCases,
		"rule":                desc.Rule,
		"samples":             a.samples,
		"planned_runs":        planned,
		"stopped_early":       stopped,
		"distinct_scenarios":  len(a.keys),
		"runs_per_hour":       int(float64(done) / (exploreWall + 1e-9) * 3600),
		"seeds":               map[string]any{"verif_seed": d.Seed, "run_seeds": done, "seeds_per_hour": int(float64(done) / (exploreWall + 1e-9) * 3600)},
		"logical_steps":       a.steps,
		"operations":          a.ops,
		"context_switches":    a.switches,
		"in_operation_switches": a.inOpSw,
		"distinct_interleavings": len(a.ilv),
		"distinct_abstract_states": len(a.states),
		"fault_kinds_fired":   a.faults,
		"probes":              a.probes,
		"counters":            a.extra,
		"determinism_reruns":  detChecked,
		"shrink":              ss,
		"reported":            reported,
		"components": map[string]any{"real_code": desc.RealCode, "simulated": desc.Simulated, "stubs": desc.Stubs},
	}
	if desc.NoSimTime != "" {
		cov["simulated_time"] = desc.NoSimTime
	} else {
		cov["simulated_time_ns"] = a.simNanos
	}
	if a.slots > 0 {
		cov["crash_slots_executed"] = a.slots
		cov["scenarios_with_every_slot_enumerated"] = a.exhaustOK
	}
	if len(a.samples) == 0 {
		cov["samples"] = []any{"(no sample recorded)"}
	}
	ev := map[string]any{
		"property_id": d.Prop,
		"tier":        d.Tier,
		"seed":        d.Seed,
		"level":       desc.Level,
		"coverage":    cov,
		"assumptions": desc.Assumptions,
		"wall_s":      wall,
		"violations":  nviol,
	}
	b, _ := json.MarshalIndent(ev, "", " ")
	os.MkdirAll(filepath.Join(d.Home, "evidence"), 0o755)
	os.WriteFile(filepath.Join(d.Home, "evidence", d.Prop+".json"), b, 0o644)
}

// Replay executes a replay file in a fresh worker and reports whether its signature reproduces.
func (d *Driver) Replay(path string) int {
	b, err := os.ReadFile(path)
	if err != nil {
		fmt.Fprintln(os.Stderr, "verif:", err)
		return 2
	}
	var sc Scenario
	if err := json.Unmarshal(b, &sc); err != nil {
		fmt.Fprintln(os.Stderr, "verif:", err)
		return 2
	}
	r, herr := d.RunScenario(&sc, 0)
	if herr != "" || r == nil {
		fmt.Fprintln(os.Stderr, "verif: replay failed to run:", herr)
		return 2
	}
	if r.Harness != "" {
		fmt.Fprintln(os.Stderr, "verif: harness trouble:", r.Harness)
		return 2
	}
	for _, v := range r.Violations {
		fmt.Fprintf(d.Out, "violation: %s\n  %s\n", v.Sig, strings.ReplaceAll(v.Detail, "\n", "\n  "))
		if v.Report != "" {
			fmt.Fprintf(d.Out, "%s\n", v.Report)
		}
	}
	fmt.Fprintf(d.Out, "outcomes: %v\nsteps=%d switches=%d log=%s\n", r.Outcomes, r.Sched.Steps, r.Sched.Switches, r.LogHash)
	if sc.Expect != "" {
		if r.Has(sc.Expect) {
			fmt.Fprintf(d.Out, "VIOLATION property=%s replay=%s\n", sc.Property, path)
			return 1
		}
		fmt.Fprintf(d.Out, "expected signature %q did not occur\n", sc.Expect)
		return 0
	}
	if len(r.Violations) > 0 {
		fmt.Fprintf(d.Out, "VIOLATION property=%s replay=%s\n", sc.Property, path)
		return 1
	}
	return 0
}
