package core

import (
	"bufio"
	"encoding/json"
	"fmt"
	"io"
	"os"
	"strings"

	"github.com/sirupsen/logrus"
	verifsim "github.com/protobom/protobom/pkg/verifsim"
)

// Request is one line of the worker protocol.
type Request struct {
	// either generate ...
	Property  string `json:"property,omitempty"`
	VerifSeed int64  `json:"verif_seed,omitempty"`
	Tier      string `json:"tier,omitempty"`
	Idx       int    `json:"idx"`
	// ... or execute an explicit scenario
	Scenario *Scenario `json:"scenario,omitempty"`
	// return the generated scenario with the result
	WantScenario bool `json:"want_scenario,omitempty"`
	// GenOnly: generate the scenario and return it without executing it. Engines whose subject has
	// process-wide lazily initialised state execute every scenario in a process that has done nothing
	// else before - not even generating the scenario, which renders documents with the real serializers
	GenOnly bool `json:"gen_only,omitempty"`
}

type Response struct {
	Idx      int       `json:"idx"`
	Result   *Result   `json:"result"`
	Scenario *Scenario `json:"scenario,omitempty"`
	Stop     bool      `json:"stop,omitempty"` // worker wants to be restarted (resource limit)
}

// ExitSentinel is panicked by the process-exit hook.
type ExitSentinel struct{ Code int }

// InstallExitHooks turns process exits requested by library code into panics
// that the operation wrappers record as outcome "process-exit".
func InstallExitHooks() {
	logrus.StandardLogger().ExitFunc = func(code int) { panic(ExitSentinel{code}) }
	logrus.SetOutput(io.Discard)
}

// raceLog reads race reports the detector wrote for this process.
type raceLog struct {
	path string
	off  int64
	errs int
}

var rlog raceLog

func raceLogPath() string {
	for _, kv := range strings.Fields(os.Getenv("GORACE")) {
		if strings.HasPrefix(kv, "log_path=") {
			return fmt.Sprintf("%s.%d", strings.TrimPrefix(kv, "log_path="), os.Getpid())
		}
	}
	return ""
}

// RaceMark remembers the current position of the detector's output.
func RaceMark() {
	if rlog.path == "" {
		rlog.path = raceLogPath()
	}
	rlog.errs = verifsim.RaceErrors()
	if rlog.path != "" {
		if st, err := os.Stat(rlog.path); err == nil {
			rlog.off = st.Size()
		}
	}
}

// RaceCollect returns the reports written since RaceMark, at most the first
// `limit` of them (reports caused by the harness after the join are excluded
// by the caller passing the count observed at the join).
func RaceCollect(limit int) (sigs, reports []string) {
	if limit <= 0 || rlog.path == "" {
		return nil, nil
	}
	f, err := os.Open(rlog.path)
	if err != nil {
		return nil, nil
	}
	defer f.Close()
	if _, err := f.Seek(rlog.off, 0); err != nil {
		return nil, nil
	}
	b, _ := io.ReadAll(f)
	rawReports = strings.Count(string(b), "WARNING: DATA RACE")
	sigs, reports = ParseRaceReports(string(b))
	if len(sigs) > limit {
		sigs, reports = sigs[:limit], reports[:limit]
	}
	return
}

var rawReports int

// RaceDelta is the number of reports since RaceMark.
func RaceDelta() int { return verifsim.RaceErrors() - rlog.errs }

// AttachRaces turns detector reports into violations of prop.
func AttachRaces(res *Result, n int) { attachRaces(res, n, "") }

// AttachRacesAs is for workloads in which the harness itself is the mutator and
// the reader (C12): a race between two harness accesses means the two values
// share memory; it is reported under the signature asSig.
func AttachRacesAs(res *Result, n int, asSig string) { attachRaces(res, n, asSig) }

func attachRaces(res *Result, n int, asSig string) {
	if n <= 0 {
		return
	}
	sigs, reps := RaceCollect(n)
	if len(sigs) == 0 && rawReports > 0 {
		return // only simulator-internal reports
	}
	if len(sigs) == 0 {
		res.Harness = fmt.Sprintf("%d race reports counted but none found in %q (GORACE log_path missing?)", n, rlog.path)
		return
	}
	for i, s := range sigs {
		if !RaceInProtobom(s) && asSig != "" {
			if !res.Has(asSig) {
				res.Violations = append(res.Violations, Violation{Sig: asSig, Detail: "the race detector reports conflicting accesses by the mutating task and the reading task: the two values share memory", Report: reps[i]})
			}
			continue
		}
		if !RaceInProtobom(s) {
			res.Harness = "race report without protobom frame (harness or dependency): " + s + "\n" + reps[i]
			continue
		}
		if !res.Has(s) {
			res.Violations = append(res.Violations, Violation{Sig: s, Detail: "data race reported by the Go race detector", Report: reps[i]})
		}
	}
}

// RunWorker serves requests from r until EOF.
func RunWorker(r io.Reader, w io.Writer) error {
	InstallExitHooks()
	in := bufio.NewReaderSize(r, 1<<20)
	out := bufio.NewWriter(w)
	defer out.Flush()
	dec := json.NewDecoder(in)
	enc := json.NewEncoder(out)
	for {
		var req Request
		if err := dec.Decode(&req); err != nil {
			if err == io.EOF {
				return nil
			}
			return err
		}
		resp := Serve(&req)
		if err := enc.Encode(resp); err != nil {
			return err
		}
		out.Flush()
		if resp.Stop {
			return nil
		}
	}
}

// Serve executes one request in this process.
func Serve(req *Request) *Response {
	sc := req.Scenario
	if sc == nil {
		e, err := EngineFor(req.Property)
		if err != nil {
			return &Response{Idx: req.Idx, Result: &Result{Harness: err.Error()}}
		}
		sc = e.Generate(req.Property, req.VerifSeed, req.Tier, req.Idx)
		if req.GenOnly {
			return &Response{Idx: req.Idx, Result: &Result{Run: sc.Run}, Scenario: sc}
		}
	}
	e := EngineByName(sc.Engine)
	if e == nil {
		return &Response{Idx: req.Idx, Result: &Result{Harness: "unknown engine " + sc.Engine}}
	}
	res := e.Execute(sc)
	res.Run = sc.Run
	resp := &Response{Idx: req.Idx, Result: res}
	if req.WantScenario || len(res.Violations) > 0 || res.Harness != "" {
		resp.Scenario = sc
	}
	if verifsim.ParkedGoroutines() > 5000 {
		resp.Stop = true
	}
	return resp
}

// ProbeJSON is what a fresh process observed about process-initial state
// (which formats have drivers); the driver passes it to every worker.
func ProbeJSON() string { return os.Getenv("VERIF_PROBE") }
