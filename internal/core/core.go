// Package core holds what every engine shares: scenario and result types, the
// worker protocol, the driver (worker pool, aggregation, shrinking, known
// findings, evidence).
package core

import (
	"encoding/json"
	"fmt"
	"sort"
	"strings"

	verifsim "github.com/protobom/protobom/pkg/verifsim"
)

// Scenario fully describes one simulated run. The worker executes a scenario
// and nothing else, so a scenario file is a replay file.
type Scenario struct {
	V         int             `json:"v"`
	Property  string          `json:"property"`
	Engine    string          `json:"engine"`
	VerifSeed int64           `json:"verif_seed"`
	Run       int             `json:"run"`
	RunSeed   uint64          `json:"run_seed"`
	Sched     verifsim.Config `json:"sched"`
	Spec      json.RawMessage `json:"spec"`
	Expect    string          `json:"expect,omitempty"` // violation signature this file reproduces
	// ExpectCanon: canonical results observed elsewhere (a history of length one in a fresh
	// process) that this scenario's results are compared with (determinism across histories).
	ExpectCanon map[string]string `json:"expect_canon,omitempty"`
	Note      string          `json:"note,omitempty"`
}

type Violation struct {
	Sig    string `json:"sig"`
	Detail string `json:"detail"`
	Report string `json:"report,omitempty"` // race report text etc.
}

// Result of executing one scenario.
type Result struct {
	Run        int             `json:"run"`
	Violations []Violation     `json:"violations,omitempty"`
	Sched      verifsim.Result `json:"sched"`
	Nontrivial bool            `json:"nontrivial"`
	Key        string          `json:"key"`              // hash identifying the distinct case
	States     []string        `json:"states,omitempty"` // hashes of abstract states reached
	Probes     map[string]int  `json:"probes,omitempty"`
	Faults     map[string]int  `json:"faults,omitempty"` // fault kinds that actually fired
	LogHash    string          `json:"log_hash"`
	Outcomes   []string        `json:"outcomes,omitempty"`
	Ops        int             `json:"ops"`
	SimNanos   int64           `json:"sim_nanos,omitempty"` // simulated time covered
	Harness    string          `json:"harness_error,omitempty"`
	Sample     any             `json:"sample,omitempty"`
	Extra      map[string]int  `json:"extra,omitempty"`
	Slots      int             `json:"slots,omitempty"`       // C20: crash slots executed
	Exhaustive bool            `json:"exhaustive,omitempty"`
	Canon      map[string]string `json:"canon,omitempty"` // key -> canonical result hash, compared across runs by the driver
	Cases      int             `json:"cases,omitempty"` // distinct non-trivial cases this result stands for (default 1)
}

func (r *Result) Violate(sig, detail string) {
	for _, v := range r.Violations {
		if v.Sig == sig {
			return
		}
	}
	r.Violations = append(r.Violations, Violation{Sig: sig, Detail: detail})
}

func (r *Result) Probe(name string) {
	if r.Probes == nil {
		r.Probes = map[string]int{}
	}
	r.Probes[name]++
}

func (r *Result) Sigs() []string {
	var s []string
	for _, v := range r.Violations {
		s = append(s, v.Sig)
	}
	sort.Strings(s)
	return s
}

// Has reports whether the result contains a violation matching sig (see SigMatch).
func (r *Result) Has(sig string) bool {
	for _, v := range r.Violations {
		if SigMatch(v.Sig, sig) {
			return true
		}
	}
	return false
}

// SigMatch compares violation signatures. Race signatures name the two top
// protobom frames of the report; for one and the same race on one variable the
// detector may report different access pairs from run to run (its shadow
// memory keeps a bounded, pseudo-randomly evicted history), so two race
// signatures match when they share a function.
func SigMatch(a, b string) bool {
	if a == b {
		return true
	}
	if !strings.HasPrefix(a, "race:") || !strings.HasPrefix(b, "race:") {
		return false
	}
	for _, x := range strings.Split(strings.TrimPrefix(a, "race:"), "|") {
		for _, y := range strings.Split(strings.TrimPrefix(b, "race:"), "|") {
			if x == y && x != "" {
				return true
			}
		}
	}
	return false
}

// Engine is implemented once per family of properties.
type Engine interface {
	Name() string
	// Generate builds scenario number idx of a batch.
	Generate(prop string, verifSeed int64, tier string, idx int) *Scenario
	// Execute runs the scenario in this process.
	Execute(sc *Scenario) *Result
	// Shrinks returns one-step reductions of sc, most aggressive first.
	Shrinks(sc *Scenario) []*Scenario
	// PerProcess is the number of scenarios one worker process may execute
	// (1 when the subject has package-level state).
	PerProcess(prop string) int
	// Runs is the number of scenarios of a tier.
	Runs(prop, tier string) int
	// Describe returns static evidence text.
	Describe(prop string) Description
}

// CanonEngine is implemented by engines whose results are compared across runs.
type CanonEngine interface {
	// SoloScenario returns the history of length one that produces the result named by key.
	SoloScenario(prop string, verifSeed int64, key string) *Scenario
}

type Description struct {
	Rule        string
	Level       string // exploration | fault_enumeration
	Assumptions []string
	RealCode    []string
	Simulated   []string
	Stubs       []string
	NoSimTime   string // why there is no simulated clock in play (if so)
}

var engines = map[string]Engine{}
var propEngine = map[string]string{}

func Register(e Engine, props ...string) {
	engines[e.Name()] = e
	for _, p := range props {
		propEngine[p] = e.Name()
	}
}

func EngineFor(prop string) (Engine, error) {
	n, ok := propEngine[prop]
	if !ok {
		return nil, fmt.Errorf("no engine claims property %s", prop)
	}
	return engines[n], nil
}

func EngineByName(n string) Engine { return engines[n] }

func Props() []string {
	var ps []string
	for p := range propEngine {
		ps = append(ps, p)
	}
	sort.Strings(ps)
	return ps
}

// SplitMix derives per-run seeds.
func SplitMix(a uint64, b uint64) uint64 {
	x := a*0x9e3779b97f4a7c15 + b + 0x7f4a7c15
	x = (x ^ (x >> 30)) * 0xbf58476d1ce4e5b9
	x = (x ^ (x >> 27)) * 0x94d049bb133111eb
	return x ^ (x >> 31)
}

func HashStr(s string) uint64 {
	h := uint64(14695981039346656037)
	for i := 0; i < len(s); i++ {
		h ^= uint64(s[i])
		h *= 1099511628211
	}
	return h
}

// ---- race report parsing ----

const modPkg = "github.com/protobom/protobom/pkg/"

// ParseRaceReports splits detector output into reports and derives a signature for each.
func ParseRaceReports(text string) (sigs []string, reports []string) {
	parts := strings.Split(text, "==================")
	for _, p := range parts {
		if !strings.Contains(p, "WARNING: DATA RACE") {
			continue
		}
		if simulatorInternal(p) {
			// both accesses were made by the simulator's own kernel-like state (simulated disk,
			// cooperative sync wrappers) on behalf of two tasks: a real kernel serialises that itself
			continue
		}
		reports = append(reports, strings.TrimSpace(p))
		sigs = append(sigs, raceSig(p))
	}
	return
}

// simulatorInternal reports whether in both stacks of a race report the accessing function
// (first frame that is not runtime/reflect/sync) lies in the simulator runtime (pkg/verifsim).
func simulatorInternal(rep string) bool {
	n, internal := 0, 0
	inStack, decided := false, false
	for _, ln := range strings.Split(rep, "\n") {
		t := strings.TrimSpace(ln)
		isHdr := (strings.Contains(ln, " by goroutine ") || strings.Contains(ln, " by main goroutine")) &&
			(strings.HasPrefix(t, "Read at") || strings.HasPrefix(t, "Write at") || strings.HasPrefix(t, "Previous read at") ||
				strings.HasPrefix(t, "Previous write at") || strings.HasPrefix(t, "Atomic") || strings.HasPrefix(t, "Previous atomic"))
		if isHdr {
			inStack, decided = true, false
			n++
			continue
		}
		if strings.HasPrefix(t, "Goroutine ") {
			inStack = false
			continue
		}
		if !inStack || decided || !strings.HasPrefix(ln, "  ") || strings.HasPrefix(ln, "      ") || !strings.HasSuffix(t, ")") {
			continue
		}
		fn := t[:strings.LastIndex(t, "(")]
		if strings.HasPrefix(fn, "runtime.") || strings.HasPrefix(fn, "reflect.") || strings.HasPrefix(fn, "sync.") ||
			strings.HasPrefix(fn, "sync/atomic.") || strings.HasPrefix(fn, "internal/") {
			continue
		}
		decided = true
		if strings.HasPrefix(fn, modPkg+"verifsim") {
			internal++
		}
	}
	return n >= 2 && internal == n
}

func raceSig(rep string) string {
	lines := strings.Split(rep, "\n")
	var tops []string
	inStack := false
	found := false
	first := ""
	for _, ln := range lines {
		t := strings.TrimSpace(ln)
		isHdr := strings.Contains(ln, " by goroutine ") || strings.Contains(ln, " by main goroutine")
		if isHdr && (strings.HasPrefix(t, "Read at") || strings.HasPrefix(t, "Write at") ||
			strings.HasPrefix(t, "Previous read at") || strings.HasPrefix(t, "Previous write at") ||
			strings.HasPrefix(t, "Atomic") || strings.HasPrefix(t, "Previous atomic")) {
			if inStack && !found {
				tops = append(tops, "?"+first)
			}
			inStack, found, first = true, false, ""
			continue
		}
		if strings.HasPrefix(t, "Goroutine ") {
			if inStack && !found {
				tops = append(tops, "?"+first)
			}
			inStack = false
			continue
		}
		if !inStack || found {
			continue
		}
		if strings.HasPrefix(ln, "  ") && !strings.HasPrefix(ln, "      ") && strings.HasSuffix(t, ")") {
			fn := t[:strings.LastIndex(t, "(")]
			if first == "" {
				first = fn
			}
			if strings.HasPrefix(fn, modPkg) && !strings.Contains(fn, "/verifsim") {
				tops = append(tops, strings.TrimPrefix(fn, modPkg))
				found = true
			}
		}
	}
	if inStack && !found {
		tops = append(tops, "?"+first)
	}
	if len(tops) > 2 {
		tops = tops[:2]
	}
	sort.Strings(tops)
	return "race:" + strings.Join(tops, "|")
}

// RaceInProtobom reports whether a race signature involves protobom code.
func RaceInProtobom(sig string) bool {
	for _, p := range strings.Split(strings.TrimPrefix(sig, "race:"), "|") {
		if p != "" && !strings.HasPrefix(p, "?") {
			return true
		}
	}
	return false
}
