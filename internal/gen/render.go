package gen

import (
	"bytes"
	"encoding/json"
	"fmt"
	"math/rand"
	"os"
	"strings"

	"github.com/protobom/protobom/pkg/formats"
	"github.com/protobom/protobom/pkg/native"
	"github.com/protobom/protobom/pkg/native/serializers"
	"github.com/protobom/protobom/pkg/sbom"
)

// RenderSafe is RenderWith for workload generation: a serializer that fails or panics on a
// workload document must not take the generator down (the checks that own that behaviour report
// it); the caller falls back to fixed bytes.
func RenderSafe(format string, d *sbom.Document, indent int) (b []byte, err error) {
	defer func() {
		if p := recover(); p != nil {
			b, err = nil, fmt.Errorf("serializer panicked: %v", p)
		}
	}()
	return RenderWith(format, d, indent)
}

// RenderWith serialises d with a fresh built-in driver object (the
// reader/writer/formats packages are not touched).
func RenderWith(format string, d *sbom.Document, indent int) ([]byte, error) {
	return RenderWithFO(format, d, indent, nil)
}

// RenderWithFO is RenderWith with format options handed to the driver.
func RenderWithFO(format string, d *sbom.Document, indent int, fo interface{}) ([]byte, error) {
	var s native.Serializer
	f := formats.Format(format)
	switch {
	case format == string(formats.SPDX23JSON):
		s = serializers.NewSPDX23()
	case f.Type() == formats.CDXFORMAT:
		s = serializers.NewCDX(f.Version(), formats.JSON)
	default:
		return nil, fmt.Errorf("no built-in serializer for %s", format)
	}
	nd, err := s.Serialize(d, &native.SerializeOptions{}, fo)
	if err != nil {
		return nil, err
	}
	var buf bytes.Buffer
	if err := s.Render(nd, &buf, &native.RenderOptions{Indent: indent}, fo); err != nil {
		return nil, err
	}
	return buf.Bytes(), nil
}

// SerialisableDoc returns a document both built-in serializer families accept.
func SerialisableDoc(r *rand.Rand, tag string, maxNodes int) *sbom.Document {
	g := New(r.Int63(), Profile{Serialisable: true, MaxNodes: maxNodes, Tag: tag})
	return g.Document("https://example.com/verif/" + tag + "#DOCUMENT")
}


// SizeConstants returns the integer constants (1 KiB .. 256 MiB) the instrumenter found in a package of
// the tree under test ("storage", "formats", "reader", "writer").
func SizeConstants(pkg string) []int64 {
	b, err := os.ReadFile(os.Getenv("VERIF_WORK") + "/overlay/report.json")
	if err != nil {
		return nil
	}
	var rep struct {
		C map[string][]int64 `json:"size_constants"`
	}
	if json.Unmarshal(b, &rep) != nil {
		return nil
	}
	return rep.C[pkg]
}

var dictOnce struct {
	done       bool
	keys, dict []string
}

// DriverDict returns what the instrumenter found in the driver packages of the tree under test:
// constant strings that index string-keyed maps (likely option keys) and identifier-like string literals.
func DriverDict() (keys, dict []string) {
	if !dictOnce.done {
		dictOnce.done = true
		if b, err := os.ReadFile(os.Getenv("VERIF_WORK") + "/overlay/report.json"); err == nil {
			var rep struct {
				Keys []string `json:"driver_map_keys"`
				Dict []string `json:"driver_strings"`
			}
			if json.Unmarshal(b, &rep) == nil {
				dictOnce.keys, dictOnce.dict = rep.Keys, rep.Dict
			}
		}
	}
	return dictOnce.keys, dictOnce.dict
}

// FormatOptionSpec draws a map[string]string format option as "k=v" pairs: every discovered option key
// plus a few dictionary words.
func FormatOptionSpec(r *rand.Rand) []string {
	keys, dict := DriverDict()
	vals := []string{"vendor-a", "1", "true", "x y", "3"}
	var out []string
	for _, k := range keys {
		out = append(out, k+"="+vals[r.Intn(len(vals))])
	}
	for i := r.Intn(3); i > 0 && len(dict) > 0; i-- {
		out = append(out, dict[r.Intn(len(dict))]+"="+vals[r.Intn(len(vals))])
	}
	if len(out) == 0 {
		out = append(out, "indent=3")
	}
	return out
}

// FormatOptionMap turns the "k=v" pairs back into the map.
func FormatOptionMap(spec []string) map[string]string {
	if len(spec) == 0 {
		return nil
	}
	m := map[string]string{}
	for _, kv := range spec {
		if i := strings.Index(kv, "="); i >= 0 {
			m[kv[:i]] = kv[i+1:]
		}
	}
	return m
}
