package gen

import (
	"bytes"
	"fmt"
	"math/rand"

	"github.com/protobom/protobom/pkg/formats"
	"github.com/protobom/protobom/pkg/native"
	"github.com/protobom/protobom/pkg/native/serializers"
	"github.com/protobom/protobom/pkg/sbom"
)

// RenderSafe is RenderWith for workload generation: a serializer that fails or panics on a
// workload document must not take the generator down (the checks that own that behaviour report
// it); the caller falls back to fixed bytes.
func RenderSafe(format string, d *sbom.Document, indent int) (b []byte, err error) {
	defer func() {
		if p := recover(); p != nil {
			b, err = nil, fmt.Errorf("serializer panicked: %v", p)
		}
	}()
	return RenderWith(format, d, indent)
}

// RenderWith serialises d with a fresh built-in driver object (the
// reader/writer/formats packages are not touched).
func RenderWith(format string, d *sbom.Document, indent int) ([]byte, error) {
	var s native.Serializer
	f := formats.Format(format)
	switch {
	case format == string(formats.SPDX23JSON):
		s = serializers.NewSPDX23()
	case f.Type() == formats.CDXFORMAT:
		s = serializers.NewCDX(f.Version(), formats.JSON)
	default:
		return nil, fmt.Errorf("no built-in serializer for %s", format)
	}
	nd, err := s.Serialize(d, &native.SerializeOptions{}, nil)
	if err != nil {
		return nil, err
	}
	var buf bytes.Buffer
	if err := s.Render(nd, &buf, &native.RenderOptions{Indent: indent}, nil); err != nil {
		return nil, err
	}
	return buf.Bytes(), nil
}

// SerialisableDoc returns a document both built-in serializer families accept.
func SerialisableDoc(r *rand.Rand, tag string, maxNodes int) *sbom.Document {
	g := New(r.Int63(), Profile{Serialisable: true, MaxNodes: maxNodes, Tag: tag})
	return g.Document("https://example.com/verif/" + tag + "#DOCUMENT")
}
