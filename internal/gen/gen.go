// Package gen builds workload documents. The generator is driven by the
// protobuf descriptors, so message fields added later are populated without
// touching it.
package gen

import (
	"reflect"
	"fmt"
	"math/rand"
	"sort"
	"strings"

	"github.com/protobom/protobom/pkg/sbom"
	"google.golang.org/protobuf/proto"
	"google.golang.org/protobuf/reflect/protoreflect"
	"google.golang.org/protobuf/types/known/timestamppb"
)

// Profile selects what the generator may produce.
type Profile struct {
	Serialisable bool // restrict to what both built-in serializers accept
	Hostile      bool // allow undeclared enum numbers etc.
	MaxNodes     int
	Tag          string // made part of every generated string so values are attributable
}

var words = []string{"Alpha", "BETA", "MixedCase@Example.COM", "alpha", "beta", "gamma", "delta", "lib", "core", "util", "ß-ünï", "名前", "x:y", "a+b", "(p)", "n(q)o", "sp ace", ""}
var safeWords = []string{"alpha", "beta", "gamma", "delta", "lib", "core", "util", "zeta", "eta", "theta"}

type G struct {
	R   *rand.Rand
	P   Profile
	ctr int
}

func New(seed int64, p Profile) *G {
	if p.MaxNodes == 0 {
		p.MaxNodes = 6
	}
	return &G{R: rand.New(rand.NewSource(seed)), P: p}
}

func (g *G) str(field string) string {
	g.ctr++
	if g.P.Serialisable {
		w := safeWords[g.R.Intn(len(safeWords))]
		if g.R.Intn(6) == 0 {
			w = []string{"ß-ünï", "名前", "café", "naïve—dash", "emoji-🙂"}[g.R.Intn(5)] // multi-byte sequences (chunk boundaries fall inside them)
		}
		return fmt.Sprintf("%s-%s%s%d", w, g.P.Tag, field[:1], g.ctr)
	}
	w := words[g.R.Intn(len(words))]
	if w == "" && g.R.Intn(2) == 0 {
		return ""
	}
	return fmt.Sprintf("%s%s%d", w, g.P.Tag, g.ctr)
}

func (g *G) enumVal(ed protoreflect.EnumDescriptor) protoreflect.EnumNumber {
	vals := ed.Values()
	if g.P.Hostile && g.R.Intn(6) == 0 {
		if g.R.Intn(2) == 0 {
			return protoreflect.EnumNumber(-1 - g.R.Intn(50)) // negative numbers survive protobuf decoding
		}
		return protoreflect.EnumNumber(1000 + g.R.Intn(50))
	}
	return vals.Get(g.R.Intn(vals.Len())).Number()
}

func (g *G) scalar(fd protoreflect.FieldDescriptor) protoreflect.Value {
	switch fd.Kind() {
	case protoreflect.StringKind:
		return protoreflect.ValueOfString(g.str(string(fd.Name())))
	case protoreflect.BoolKind:
		return protoreflect.ValueOfBool(g.R.Intn(2) == 0)
	case protoreflect.EnumKind:
		return protoreflect.ValueOfEnum(g.enumVal(fd.Enum()))
	case protoreflect.Int32Kind, protoreflect.Sint32Kind, protoreflect.Sfixed32Kind:
		return protoreflect.ValueOfInt32(int32(g.R.Intn(12)))
	case protoreflect.Int64Kind, protoreflect.Sint64Kind, protoreflect.Sfixed64Kind:
		return protoreflect.ValueOfInt64(int64(g.R.Intn(1 << 30)))
	case protoreflect.Uint32Kind, protoreflect.Fixed32Kind:
		return protoreflect.ValueOfUint32(uint32(g.R.Intn(12)))
	case protoreflect.Uint64Kind, protoreflect.Fixed64Kind:
		return protoreflect.ValueOfUint64(uint64(g.R.Intn(1 << 30)))
	case protoreflect.FloatKind:
		return protoreflect.ValueOfFloat32(float32(g.R.Intn(100)))
	case protoreflect.DoubleKind:
		return protoreflect.ValueOfFloat64(float64(g.R.Intn(100)))
	case protoreflect.BytesKind:
		return protoreflect.ValueOfBytes([]byte(g.str("b")))
	}
	panic("gen: unhandled kind " + fd.Kind().String())
}

// Fill populates every field of m with a PRNG decision absent / empty / populated.
func (g *G) Fill(m protoreflect.Message, depth int) {
	fds := m.Descriptor().Fields()
	for i := 0; i < fds.Len(); i++ {
		fd := fds.Get(i)
		choice := g.R.Intn(4) // 0 absent, 1 empty (collections), 2..3 populated
		if choice == 0 {
			continue
		}
		switch {
		case fd.IsMap():
			mp := m.Mutable(fd).Map()
			if choice == 1 {
				continue
			}
			n := 1 + g.R.Intn(3)
			for j := 0; j < n; j++ {
				var k protoreflect.MapKey
				switch fd.MapKey().Kind() {
				case protoreflect.StringKind:
					k = protoreflect.ValueOfString(g.str("k")).MapKey()
				case protoreflect.Int32Kind:
					k = protoreflect.ValueOfInt32(int32(g.R.Intn(12))).MapKey()
				default:
					k = g.scalar(fd.MapKey()).MapKey()
				}
				if fd.MapValue().Kind() == protoreflect.MessageKind {
					v := mp.NewValue()
					g.Fill(v.Message(), depth+1)
					mp.Set(k, v)
				} else {
					mp.Set(k, g.scalar(fd.MapValue()))
				}
			}
		case fd.IsList():
			l := m.Mutable(fd).List()
			if choice == 1 {
				continue
			}
			n := 1 + g.R.Intn(3)
			for j := 0; j < n; j++ {
				if fd.Kind() == protoreflect.MessageKind {
					if depth >= 3 {
						break
					}
					v := l.NewElement()
					g.Fill(v.Message(), depth+1)
					l.Append(v) // repeated append leaves spare capacity
				} else {
					l.Append(g.scalar(fd))
				}
			}
		case fd.Kind() == protoreflect.MessageKind:
			if depth >= 4 {
				continue
			}
			sub := m.Mutable(fd).Message()
			if fd.Message().FullName() == "google.protobuf.Timestamp" {
				ts := timestamppb.New(timeAt(g.R))
				if !g.P.Serialisable && g.R.Intn(6) == 0 {
					// out-of-range values survive protobuf decoding and programmatic construction
					switch g.R.Intn(3) {
					case 0:
						ts.Nanos = -5
					case 1:
						ts.Nanos = 2000000000
					default:
						ts.Seconds = 1 << 60
					}
				}
				sub.Set(sub.Descriptor().Fields().ByName("seconds"), protoreflect.ValueOfInt64(ts.Seconds))
				sub.Set(sub.Descriptor().Fields().ByName("nanos"), protoreflect.ValueOfInt32(ts.Nanos))
				continue
			}
			g.Fill(sub, depth+1)
		default:
			m.Set(fd, g.scalar(fd))
		}
	}
}

// Node returns a node with every attribute decided by the PRNG.
func (g *G) Node(id string) *sbom.Node {
	n := &sbom.Node{}
	if g.P.Serialisable {
		g.fillSerialisableNode(n)
	} else {
		g.Fill(n.ProtoReflect(), 0)
	}
	n.Id = id
	if !g.P.Serialisable && g.R.Intn(3) == 0 {
		// purl-shaped identifiers (some written with the extra slash that some producers emit)
		if n.Identifiers == nil {
			n.Identifiers = map[int32]string{}
		}
		typ := []string{"generic", "deb", "npm"}[g.R.Intn(3)]
		sep := []string{"", "/"}[g.R.Intn(2)]
		n.Identifiers[int32(sbom.SoftwareIdentifierType_PURL)] = fmt.Sprintf("pkg:%s%s/%s@1.%d", sep, typ, safeWords[g.R.Intn(len(safeWords))], g.R.Intn(9))
		if g.R.Intn(3) == 0 {
			n.Identifiers[int32(sbom.SoftwareIdentifierType_PURL)] = PurlZoo(g.R, safeWords[g.R.Intn(len(safeWords))], g.R.Intn(9))
		}
		if n.Type == sbom.Node_FILE && g.R.Intn(2) == 0 {
			n.Type = sbom.Node_PACKAGE
		}
	}
	return n
}

// PurlZoo returns a package url in one of the shapes the purl specification allows (qualifiers,
// subpaths, namespaces, escaped and unescaped scopes, no version) or that producers get wrong.
func PurlZoo(r *rand.Rand, name string, k int) string {
	shapes := []string{
		"pkg:npm/%%40scope/%s@1.0.%d",
		"pkg:npm/@scope/%s@1.0.%d",
		"pkg:generic/%s?vcs_url=git@github.com:acme/dep%d.git",
		"pkg:github/acme/%s#docs/@internal%d",
		"pkg:deb/debian/%s@1.0-%d?arch=amd64&distro=debian-11",
		"pkg:golang/github.com/acme/%s@v1.2.%d#cmd/tool",
		"pkg:maven/org.acme/%s@1.%d?type=jar&classifier=sources",
		"pkg:oci/%s@sha256:0123456789abcdef%d?repository_url=ghcr.io/acme/img&tag=latest",
		"pkg:generic/%s@%.0d",
		"pkg:generic/%s%.0d",
		"PKG:Generic/%s@1.%d",
		"pkg:generic/%s@1.%d@2",
		"pkg:generic/%s@1.%d?",
		"pkg:generic/%s@1.%d#",
		"pkg:generic/%s%%20with%%20space@1.%d+build.1",
		"pkg:pypi/%s@1.%d.0rc1?extra=a%%40b",
		"notapurl-%s-%d",
		"pkg:%s%.0d",
		"pkg:generic/@%s.%d",
	}
	return fmt.Sprintf(shapes[r.Intn(len(shapes))], name, k)
}

var hashAlgos = []sbom.HashAlgorithm{sbom.HashAlgorithm_SHA1, sbom.HashAlgorithm_SHA256, sbom.HashAlgorithm_SHA512, sbom.HashAlgorithm_MD5}

func (g *G) fillSerialisableNode(n *sbom.Node) {
	n.Type = sbom.Node_PACKAGE
	if g.R.Intn(4) == 0 {
		n.Type = sbom.Node_FILE
	}
	n.Name = g.str("name")
	if g.R.Intn(2) == 0 {
		n.Version = fmt.Sprintf("%d.%d.%d", g.R.Intn(9), g.R.Intn(9), g.R.Intn(9))
	}
	if g.R.Intn(2) == 0 {
		n.Description = g.str("desc")
	}
	if g.R.Intn(2) == 0 {
		n.Copyright = g.str("copyright")
	}
	for k := g.R.Intn(3); k > 0; k-- {
		n.Licenses = append(n.Licenses, []string{"MIT", "Apache-2.0", "BSD-3-Clause", "GPL-2.0-only"}[g.R.Intn(4)])
	}
	if g.R.Intn(3) == 0 {
		n.LicenseConcluded = "MIT"
	}
	if g.R.Intn(3) == 0 {
		n.LicenseComments = g.str("lcomment")
	}
	if g.R.Intn(2) == 0 {
		n.Hashes = map[int32]string{}
		for i := 0; i <= g.R.Intn(3); i++ {
			a := hashAlgos[g.R.Intn(len(hashAlgos))]
			n.Hashes[int32(a)] = fmt.Sprintf("%040x", g.R.Int63())
		}
	}
	if n.Type == sbom.Node_PACKAGE && g.R.Intn(2) == 0 {
		// several identifier kinds at once (both CPE flavours included)
		n.Identifiers = map[int32]string{}
		if g.R.Intn(3) != 0 {
			n.Identifiers[int32(sbom.SoftwareIdentifierType_PURL)] = fmt.Sprintf("pkg:generic/%s@1.0.%d", safeWords[g.R.Intn(len(safeWords))], g.ctr)
			if g.R.Intn(3) == 0 {
				n.Identifiers[int32(sbom.SoftwareIdentifierType_PURL)] = PurlZoo(g.R, safeWords[g.R.Intn(len(safeWords))], g.ctr)
			}
		}
		if g.R.Intn(2) == 0 {
			n.Identifiers[int32(sbom.SoftwareIdentifierType_CPE22)] = fmt.Sprintf("cpe:/a:vendor:%s:1.%d", safeWords[g.R.Intn(len(safeWords))], g.ctr)
		}
		if g.R.Intn(2) == 0 {
			n.Identifiers[int32(sbom.SoftwareIdentifierType_CPE23)] = fmt.Sprintf("cpe:2.3:a:vendor:%s:2.%d:*:*:*:*:*:*:*", safeWords[g.R.Intn(len(safeWords))], g.ctr)
		}
		if g.R.Intn(4) == 0 {
			n.Identifiers[int32(sbom.SoftwareIdentifierType_GITOID)] = fmt.Sprintf("gitoid:blob:sha1:%040x", g.R.Int63())
		}
	}
	for k := g.R.Intn(3); k > 0; k-- {
		p := &sbom.Person{Name: g.str("supplier"), IsOrg: g.R.Intn(2) == 0}
		if g.R.Intn(2) == 0 {
			p.Email = "x" + fmt.Sprint(g.ctr) + "@example.com"
		}
		n.Suppliers = append(n.Suppliers, p)
	}
	for k := g.R.Intn(3); k > 0; k-- {
		n.Originators = append(n.Originators, &sbom.Person{Name: g.str("originator"), IsOrg: g.R.Intn(2) == 0})
	}
	for k := g.R.Intn(3); k > 0; k-- {
		er := &sbom.ExternalReference{Url: "https://example.com/" + g.str("u"),
			Type: []sbom.ExternalReference_ExternalReferenceType{sbom.ExternalReference_WEBSITE, sbom.ExternalReference_VCS, sbom.ExternalReference_ISSUE_TRACKER}[g.R.Intn(3)]}
		if g.R.Intn(2) == 0 {
			er.Comment = g.str("ercomment")
		}
		if g.R.Intn(3) == 0 {
			er.Hashes = map[int32]string{int32(sbom.HashAlgorithm_SHA256): fmt.Sprintf("%064x", g.R.Int63())}
		}
		n.ExternalReferences = append(n.ExternalReferences, er)
	}
	for k := g.R.Intn(3); k > 0; k-- {
		n.PrimaryPurpose = append(n.PrimaryPurpose, []sbom.Purpose{sbom.Purpose_LIBRARY, sbom.Purpose_APPLICATION, sbom.Purpose_CONTAINER, sbom.Purpose_FRAMEWORK}[g.R.Intn(4)])
	}
	for k := g.R.Intn(3); k > 0; k-- {
		// attribution texts, some with surrounding white space
		n.Attribution = append(n.Attribution, []string{"", " ", "\t"}[g.R.Intn(3)]+g.str("attribution")+[]string{"", "  ", "\n"}[g.R.Intn(3)])
	}
	if g.R.Intn(3) == 0 {
		n.ReleaseDate = timestamppb.New(timeAt(g.R)) // sub-second part included
	}
	if g.R.Intn(4) == 0 {
		n.BuildDate = timestamppb.New(timeAt(g.R))
	}
	if g.R.Intn(4) == 0 {
		n.ValidUntilDate = timestamppb.New(timeAt(g.R))
	}
	if g.R.Intn(3) == 0 {
		n.UrlHome = "https://example.com/" + g.str("home")
	}
	if g.R.Intn(3) == 0 {
		n.UrlDownload = "https://example.com/" + g.str("dl")
	}
	if g.R.Intn(3) == 0 {
		n.SourceInfo = g.str("source")
	}
	if g.R.Intn(3) == 0 {
		n.Comment = g.str("comment")
	}
	if g.R.Intn(3) == 0 {
		n.Summary = g.str("summary")
	}
	if n.Type == sbom.Node_FILE {
		if g.R.Intn(2) == 0 {
			n.FileName = g.str("file")
		}
		for k := g.R.Intn(3); k > 0; k-- {
			n.FileTypes = append(n.FileTypes, []string{"SOURCE", "BINARY", "TEXT"}[g.R.Intn(3)])
		}
	}
}

func (g *G) id(i int) string {
	if g.P.Serialisable {
		return fmt.Sprintf("SPDXRef-%sn%d", strings.ReplaceAll(g.P.Tag, "_", ""), i)
	}
	return fmt.Sprintf("%sn%d", g.P.Tag, i)
}

// NodeList returns a graph: trees, DAGs, cycles, self loops, several edges per
// (source,type), 0-3 roots; roots and edge targets deliberately unsorted.
func (g *G) NodeList() *sbom.NodeList {
	nl := &sbom.NodeList{}
	n := 1 + g.R.Intn(g.P.MaxNodes)
	for i := 0; i < n; i++ {
		nl.Nodes = append(nl.Nodes, g.Node(g.id(i)))
	}
	if g.P.Serialisable {
		// one root, containment tree
		nl.RootElements = append(nl.RootElements, g.id(0))
		children := map[int][]string{}
		for i := 1; i < n; i++ {
			p := g.R.Intn(i)
			children[p] = append(children[p], g.id(i))
		}
		ps := make([]int, 0, len(children))
		for p := range children {
			ps = append(ps, p)
		}
		sort.Ints(ps)
		g.R.Shuffle(len(ps), func(i, j int) { ps[i], ps[j] = ps[j], ps[i] })
		for _, p := range ps {
			to := children[p]
			g.R.Shuffle(len(to), func(i, j int) { to[i], to[j] = to[j], to[i] })
			e := &sbom.Edge{Type: sbom.Edge_contains, From: g.id(p)}
			for _, t := range to {
				e.To = append(e.To, t)
			}
			nl.Edges = append(nl.Edges, e)
		}
		// dependency edges between arbitrary nodes (both formats can express them); targets may
		// repeat and are unsorted, and a source may be any node, not only the root
		for k := g.R.Intn(4); k > 0 && n > 1; k-- {
			e := &sbom.Edge{Type: sbom.Edge_dependsOn, From: g.id(g.R.Intn(n))}
			for j := 1 + g.R.Intn(3); j > 0; j-- {
				e.To = append(e.To, g.id(g.R.Intn(n)))
			}
			if g.R.Intn(3) == 0 {
				e.To = append(e.To, e.To[0])
			}
			nl.Edges = append(nl.Edges, e)
		}
		return nl
	}
	ne := g.R.Intn(2*n + 1)
	types := []sbom.Edge_Type{sbom.Edge_contains, sbom.Edge_dependsOn, sbom.Edge_describes, sbom.Edge_other, sbom.Edge_UNKNOWN}
	for i := 0; i < ne; i++ {
		e := &sbom.Edge{Type: types[g.R.Intn(len(types))], From: g.id(g.R.Intn(n))}
		if g.P.Hostile && g.R.Intn(8) == 0 {
			e.From = "dangling-" + g.P.Tag
		}
		k := g.R.Intn(4)
		for j := 0; j < k; j++ {
			t := g.id(g.R.Intn(n))
			if g.R.Intn(10) == 0 {
				t = "missing-" + g.P.Tag
			}
			e.To = append(e.To, t)
		}
		nl.Edges = append(nl.Edges, e)
	}
	// now and then the same identifier twice, with different content (ill-formed lists are operands too)
	if !g.P.Serialisable && n > 1 && g.R.Intn(4) == 0 {
		nl.Nodes = append(nl.Nodes, g.Node(g.id(g.R.Intn(n))))
	}
	// nodes are stored in no particular order
	g.R.Shuffle(len(nl.Nodes), func(i, j int) { nl.Nodes[i], nl.Nodes[j] = nl.Nodes[j], nl.Nodes[i] })
	nr := g.R.Intn(4)
	for i := 0; i < nr; i++ {
		nl.RootElements = append(nl.RootElements, g.id(g.R.Intn(n)))
	}
	// make sure roots are often unsorted with >= 2 entries
	if len(nl.RootElements) >= 2 {
		sort.Sort(sort.Reverse(sort.StringSlice(nl.RootElements)))
	}
	return nl
}

// Document returns a complete document.
func (g *G) Document(id string) *sbom.Document {
	d := &sbom.Document{Metadata: &sbom.Metadata{}}
	if g.P.Serialisable {
		d.Metadata.Name = g.str("doc")
		d.Metadata.Version = "1"
		d.Metadata.Tools = []*sbom.Tool{{Name: "verif", Version: "0.1"}}
		d.Metadata.Authors = []*sbom.Person{{Name: g.str("author")}}
		d.Metadata.Date = timestamppb.New(timeAt(g.R))
	} else {
		g.Fill(d.Metadata.ProtoReflect(), 0)
	}
	d.Metadata.Id = id
	d.NodeList = g.NodeList()
	return d
}

// Person returns a person with nested contacts.
func (g *G) Person(depth int) *sbom.Person {
	p := &sbom.Person{Name: g.str("person"), IsOrg: g.R.Intn(2) == 0}
	if g.R.Intn(2) == 0 {
		p.Email = g.str("email")
	}
	if g.R.Intn(2) == 0 {
		p.Url = g.str("url")
	}
	if g.R.Intn(2) == 0 {
		p.Phone = g.str("phone")
	}
	if depth < 3 {
		for i := g.R.Intn(3); i > 0; i-- {
			p.Contacts = append(p.Contacts, g.Person(depth+1))
		}
	}
	return p
}

// Dump is an order-sensitive, field-by-field rendering of a message (maps by
// sorted key). It uses only protoreflect reads; it never marshals.
// DumpHidden lists what lies between length and capacity of every slice reachable from m (Go structs,
// by reflection): a write beyond the length of an operand's list does not change the operand's value,
// but it is a write into the operand's memory.
func DumpHidden(m proto.Message) string {
	var b strings.Builder
	seen := map[uintptr]bool{}
	var walk func(v reflect.Value, path string, depth int)
	walk = func(v reflect.Value, path string, depth int) {
		if depth > 12 {
			return
		}
		switch v.Kind() {
		case reflect.Ptr:
			if v.IsNil() || seen[v.Pointer()] {
				return
			}
			seen[v.Pointer()] = true
			walk(v.Elem(), path, depth+1)
		case reflect.Struct:
			for i := 0; i < v.NumField(); i++ {
				f := v.Type().Field(i)
				if !f.IsExported() {
					continue
				}
				walk(v.Field(i), path+"."+f.Name, depth+1)
			}
		case reflect.Slice:
			if v.IsNil() || v.Type().Elem().Kind() == reflect.Uint8 {
				return
			}
			if v.Cap() > v.Len() {
				full := v.Slice(0, v.Cap())
				for i := v.Len(); i < v.Cap(); i++ {
					e := full.Index(i)
					switch e.Kind() {
					case reflect.Ptr:
						if !e.IsNil() {
							fmt.Fprintf(&b, "%s[%d of len %d]=<pointer>;", path, i, v.Len())
						}
					case reflect.String:
						if e.String() != "" {
							fmt.Fprintf(&b, "%s[%d of len %d]=%q;", path, i, v.Len(), e.String())
						}
					default:
						if !e.IsZero() {
							fmt.Fprintf(&b, "%s[%d of len %d]=%v;", path, i, v.Len(), e.Interface())
						}
					}
				}
			}
			for i := 0; i < v.Len(); i++ {
				if k := v.Index(i).Kind(); k == reflect.Ptr || k == reflect.Struct {
					walk(v.Index(i), path, depth+1)
				}
			}
		}
	}
	walk(reflect.ValueOf(m), "", 0)
	return b.String()
}

func Dump(m proto.Message) string {
	if m == nil {
		return "<nil>"
	}
	var b strings.Builder
	dumpMsg(&b, m.ProtoReflect(), "")
	return b.String()
}

// DumpNorm is Dump with timestamps rendered as the instant they denote (out-of-range seconds/nanos
// normalised the way Timestamp.AsTime does).
func DumpNorm(m proto.Message) string {
	if m == nil {
		return "<nil>"
	}
	normTS = true
	defer func() { normTS = false }()
	var b strings.Builder
	dumpMsg(&b, m.ProtoReflect(), "")
	return b.String()
}

var normTS bool

func dumpMsg(b *strings.Builder, m protoreflect.Message, path string) {
	if normTS && m.IsValid() && m.Descriptor().FullName() == "google.protobuf.Timestamp" {
		if ts, ok := m.Interface().(*timestamppb.Timestamp); ok {
			fmt.Fprintf(b, "%s=@%d\n", path, ts.AsTime().UnixNano())
			return
		}
	}
	if !m.IsValid() {
		fmt.Fprintf(b, "%s=<nil>\n", path)
		return
	}
	fds := m.Descriptor().Fields()
	for i := 0; i < fds.Len(); i++ {
		fd := fds.Get(i)
		p := path + "." + string(fd.Name())
		switch {
		case fd.IsMap():
			mp := m.Get(fd).Map()
			if !mp.IsValid() {
				fmt.Fprintf(b, "%s=<nilmap>\n", p)
				continue
			}
			type kv struct {
				k string
				v protoreflect.Value
			}
			var kvs []kv
			mp.Range(func(k protoreflect.MapKey, v protoreflect.Value) bool {
				kvs = append(kvs, kv{fmt.Sprintf("%v", k.Interface()), v})
				return true
			})
			sort.Slice(kvs, func(i, j int) bool { return kvs[i].k < kvs[j].k })
			fmt.Fprintf(b, "%s#%d\n", p, len(kvs))
			for _, e := range kvs {
				if fd.MapValue().Kind() == protoreflect.MessageKind {
					dumpMsg(b, e.v.Message(), p+"["+e.k+"]")
				} else {
					fmt.Fprintf(b, "%s[%s]=%q\n", p, e.k, fmt.Sprint(e.v.Interface()))
				}
			}
		case fd.IsList():
			l := m.Get(fd).List()
			if !l.IsValid() {
				fmt.Fprintf(b, "%s=<nillist>\n", p)
				continue
			}
			fmt.Fprintf(b, "%s#%d\n", p, l.Len())
			for j := 0; j < l.Len(); j++ {
				if fd.Kind() == protoreflect.MessageKind {
					dumpMsg(b, l.Get(j).Message(), fmt.Sprintf("%s[%d]", p, j))
				} else {
					fmt.Fprintf(b, "%s[%d]=%q\n", p, j, fmt.Sprint(l.Get(j).Interface()))
				}
			}
		case fd.Kind() == protoreflect.MessageKind:
			if !m.Has(fd) {
				fmt.Fprintf(b, "%s=<unset>\n", p)
				continue
			}
			dumpMsg(b, m.Get(fd).Message(), p)
		default:
			if fd.HasPresence() && !m.Has(fd) {
				fmt.Fprintf(b, "%s=<unset>\n", p)
				continue
			}
			fmt.Fprintf(b, "%s=%q\n", p, fmt.Sprint(m.Get(fd).Interface()))
		}
	}
}

// MapStrings rewrites every string value of m (fields, list elements, map values) through f.
func MapStrings(m protoreflect.Message, path string, f func(path, s string) string) {
	m.Range(func(fd protoreflect.FieldDescriptor, v protoreflect.Value) bool {
		p := path + "." + string(fd.Name())
		switch {
		case fd.IsMap():
			mp := v.Map()
			type kv struct {
				k protoreflect.MapKey
				v protoreflect.Value
			}
			var kvs []kv
			mp.Range(func(k protoreflect.MapKey, mv protoreflect.Value) bool { kvs = append(kvs, kv{k, mv}); return true })
			for _, e := range kvs {
				if fd.MapValue().Kind() == protoreflect.StringKind {
					mp.Set(e.k, protoreflect.ValueOfString(f(p, e.v.String())))
				} else if fd.MapValue().Kind() == protoreflect.MessageKind {
					MapStrings(e.v.Message(), p, f)
				}
			}
		case fd.IsList():
			l := v.List()
			for i := 0; i < l.Len(); i++ {
				if fd.Kind() == protoreflect.StringKind {
					l.Set(i, protoreflect.ValueOfString(f(p, l.Get(i).String())))
				} else if fd.Kind() == protoreflect.MessageKind {
					MapStrings(l.Get(i).Message(), p, f)
				}
			}
		case fd.Kind() == protoreflect.StringKind:
			m.Set(fd, protoreflect.ValueOfString(f(p, v.String())))
		case fd.Kind() == protoreflect.MessageKind:
			MapStrings(v.Message(), p, f)
		}
		return true
	})
}

// Hash64 is FNV-1a over s.
func Hash64(s string) uint64 {
	h := uint64(14695981039346656037)
	for i := 0; i < len(s); i++ {
		h ^= uint64(s[i])
		h *= 1099511628211
	}
	return h
}

func HashHex(s string) string { return fmt.Sprintf("%016x", Hash64(s)) }
