package gen

import (
	"math/rand"
	"time"
)

func timeAt(r *rand.Rand) time.Time {
	return time.Unix(1500000000+int64(r.Intn(200000000)), int64(r.Intn(1000))*1000000).UTC()
}
