// Package stream is the engine for C06: format detection on simulated streams
// (short reads, errors, EOF at any offset, flipped stored bytes, seek failures).
package stream

import (
	"bytes"
	"encoding/base64"
	"encoding/json"
	"errors"
	"fmt"
	"io"
	"math/rand"
	"os"
	"regexp"
	"sort"
	"strings"
	"time"

	"github.com/google/uuid"
	"github.com/protobom/protobom/pkg/formats"
	"github.com/protobom/protobom/pkg/native"
	"github.com/protobom/protobom/pkg/reader"
	"github.com/protobom/protobom/pkg/sbom"
	verifsim "github.com/protobom/protobom/pkg/verifsim"
	"github.com/protobom/protobom/pkg/verifsim/simos"

	"verif/internal/core"
	"verif/internal/gen"
)

type Engine struct{}

func (Engine) Name() string { return "stream" }

func init() { core.Register(Engine{}, "C06") }

// ---- simulated stream ----

type StreamFault struct {
	Kind string `json:"kind"` // err | eof | flip | seekfail
	Off  int    `json:"off"`
	Perm bool   `json:"perm,omitempty"`
	With bool   `json:"with,omitempty"` // err: deliver the bytes before the offset together with the error (n>0, err)
	Xor  int    `json:"xor,omitempty"`
	Nth  int    `json:"nth,omitempty"` // seekfail: which Seek call fails (0-based)
}

var errInjected = errors.New("injected stream error")

// simReader implements io.ReadSeeker over a byte slice; every Read returns a
// result the io.Reader contract allows, chosen by the chunk plan.
type simReader struct {
	data    []byte
	pos     int
	chunks  []int // sizes for successive Read calls (cycled); 0 = as much as fits
	ci      int
	eofWith bool // deliver the last bytes together with io.EOF
	faults  []StreamFault
	fired   map[string]int
	dead    bool // permanent error
	seeks   int
	reads   int
	split   bool // some read returned fewer bytes than requested and available
	log     []string
}

func newSimReader(data []byte, chunks []int, eofWith bool, faults []StreamFault) *simReader {
	d := append([]byte{}, data...)
	sr := &simReader{chunks: chunks, eofWith: eofWith, fired: map[string]int{}}
	for _, f := range faults {
		switch f.Kind {
		case "flip":
			if f.Off >= 0 && f.Off < len(d) {
				d[f.Off] ^= byte(f.Xor)
				sr.fired["flip"]++
			}
		case "eof":
			if f.Off >= 0 && f.Off < len(d) {
				d = d[:f.Off]
				sr.fired["eof"]++
			}
		default:
			sr.faults = append(sr.faults, f)
		}
	}
	sr.data = d
	return sr
}

func (s *simReader) Read(p []byte) (int, error) {
	s.reads++
	verifsim.Yield(verifsim.SiteStreamIO)
	if s.dead {
		return 0, errInjected
	}
	if len(p) == 0 {
		return 0, nil
	}
	for i := range s.faults {
		f := &s.faults[i]
		if f.Kind == "err" && f.Off >= 0 && s.pos >= f.Off {
			s.fired["err"]++
			if f.Perm {
				s.dead = true
			} else {
				f.Off = -1 // transient: fires once
			}
			return 0, errInjected
		}
	}
	if s.pos >= len(s.data) {
		return 0, io.EOF
	}
	n := len(s.data) - s.pos
	if n > len(p) {
		n = len(p)
	}
	if len(s.chunks) > 0 {
		c := s.chunks[s.ci%len(s.chunks)]
		s.ci++
		if c < 0 {
			// a read that makes no progress and reports no error: legal, discouraged, and something
			// consumers must survive (at most a few in a row, so the consumer's own limit is not hit)
			s.fired["(0, nil) read"]++
			s.chunks[(s.ci-1)%len(s.chunks)] = 1
			return 0, nil
		}
		if c > 0 && c < n {
			n = c
			s.split = true
		}
	}
	// stop before an error offset so that the error is met exactly there
	for i := range s.faults {
		f := &s.faults[i]
		if f.Kind == "err" && f.Off > s.pos && f.Off < s.pos+n {
			n = f.Off - s.pos
			if f.With {
				// the io.Reader contract allows n > 0 together with a non-EOF error
				copy(p, s.data[s.pos:s.pos+n])
				s.pos += n
				s.fired["err"]++
				s.fired["n>0 with error"]++
				if f.Perm {
					s.dead = true
				} else {
					f.Off = -1
				}
				return n, errInjected
			}
		}
	}
	copy(p, s.data[s.pos:s.pos+n])
	s.pos += n
	if s.eofWith && s.pos >= len(s.data) {
		s.fired["n>0 with EOF"]++
		return n, io.EOF
	}
	return n, nil
}

// simReaderAt is a simReader that also offers io.ReaderAt, like *os.File and *bytes.Reader.
type simReaderAt struct{ *simReader }

func (s simReaderAt) ReadAt(p []byte, off int64) (int, error) {
	verifsim.Yield(verifsim.SiteStreamIO)
	s.fired["ReadAt"]++
	if s.dead {
		return 0, errInjected
	}
	if off < 0 || off >= int64(len(s.data)) {
		return 0, io.EOF
	}
	n := copy(p, s.data[off:])
	if n < len(p) {
		return n, io.EOF
	}
	return n, nil
}

func (s *simReader) Seek(off int64, whence int) (int64, error) {
	k := s.seeks
	s.seeks++
	for _, f := range s.faults {
		if f.Kind == "seekfail" && f.Nth == k {
			s.fired["seekfail"]++
			return 0, errInjected
		}
	}
	var n int64
	switch whence {
	case io.SeekStart:
		n = off
	case io.SeekCurrent:
		n = int64(s.pos) + off
	case io.SeekEnd:
		n = int64(len(s.data)) + off
	}
	if n < 0 {
		return 0, errors.New("negative position")
	}
	s.pos = int(n)
	return n, nil
}

// ---- scenario ----

type Spec struct {
	PadWS     int64         `json:"pad_ws,omitempty"` // at execution, this many bytes of white space are inserted behind the opening brace
	Jump      int64         `json:"jump,omitempty"` // file-rewrite: the clock advances by this much between the two versions
	Kind      string        `json:"kind"` // writer-output relayout nearmiss nonsbom tagvalue empty truncate-all
	B         string        `json:"b"`    // base64 input bytes
	F         string        `json:"f"`    // format the writer was asked for ("" = none)
	Indent    int           `json:"indent,omitempty"`
	Chunkings [][]int       `json:"chunkings"`
	EOFWith   bool          `json:"eof_with,omitempty"`
	Faults    []StreamFault `json:"faults,omitempty"`
	// B2/F2: a second input of the same scenario that shares a long prefix with the first but
	// declares another format (whatever detection remembers about the first must not answer for it)
	// StartOff: the caller hands the stream over at this offset (it has read some of it already)
	StartOff int `json:"start_off,omitempty"`
	// ReaderAt: the stream also implements io.ReaderAt (as *os.File and *bytes.Reader do)
	ReaderAt bool   `json:"reader_at,omitempty"`
	B2       string `json:"b2,omitempty"`
	F2 string `json:"f2,omitempty"`
}

func decodeSpec(sc *core.Scenario) (*Spec, error) {
	var sp Spec
	if err := json.Unmarshal(sc.Spec, &sp); err != nil {
		return nil, err
	}
	return &sp, nil
}

func encodeSpec(sp *Spec) json.RawMessage {
	b, _ := json.Marshal(sp)
	return b
}

var readable = []string{string(formats.SPDX23JSON), string(formats.CDX13JSON), string(formats.CDX14JSON), string(formats.CDX15JSON)}

// relayout re-encodes a JSON value: member order shuffled, whitespace and string escapes changed.
func relayout(r *rand.Rand, b []byte) ([]byte, error) {
	dec := json.NewDecoder(bytes.NewReader(b))
	dec.UseNumber()
	v, err := decodeOrdered(dec)
	if err != nil {
		return nil, err
	}
	var out bytes.Buffer
	ws := func() {
		switch r.Intn(5) {
		case 0:
			out.WriteByte(' ')
		case 1:
			out.WriteString("\n\t")
		case 2:
			out.WriteString("  \r\n")
		}
	}
	str := func(s string) {
		out.WriteByte('"')
		for _, c := range s {
			switch {
			case c == '"' || c == '\\':
				out.WriteByte('\\')
				out.WriteRune(c)
			case c < 0x20:
				fmt.Fprintf(&out, "\\u%04x", c)
			case c < 0x7f && r.Intn(6) == 0:
				fmt.Fprintf(&out, "\\u%04x", c)
			case c == '/' && r.Intn(2) == 0:
				out.WriteString("\\/")
			default:
				out.WriteRune(c)
			}
		}
		out.WriteByte('"')
	}
	var emit func(v any)
	emit = func(v any) {
		switch x := v.(type) {
		case *omap:
			idx := r.Perm(len(x.keys))
			out.WriteByte('{')
			for i, k := range idx {
				if i > 0 {
					out.WriteByte(',')
				}
				ws()
				str(x.keys[k])
				ws()
				out.WriteByte(':')
				ws()
				emit(x.vals[k])
			}
			ws()
			out.WriteByte('}')
		case []any:
			out.WriteByte('[')
			for i, e := range x {
				if i > 0 {
					out.WriteByte(',')
				}
				ws()
				emit(e)
			}
			ws()
			out.WriteByte(']')
		case string:
			str(x)
		case json.Number:
			out.WriteString(x.String())
		case bool:
			fmt.Fprint(&out, x)
		case nil:
			out.WriteString("null")
		}
	}
	ws()
	emit(v)
	ws()
	return out.Bytes(), nil
}

// aligned re-encodes the top-level object (member order: sorted, reversed, declaration split around the
// rest, or as it was) and pads it with white space after the opening brace so that one top-level token
// boundary (end of a member value, after the comma, after a key, after the colon, or inside a
// declaration value) lies exactly on a typical buffer size.
func aligned(r *rand.Rand, b []byte) ([]byte, bool) {
	dec := json.NewDecoder(bytes.NewReader(b))
	dec.UseNumber()
	v, err := decodeOrdered(dec)
	top, ok := v.(*omap)
	if err != nil || !ok || len(top.keys) < 2 {
		return nil, false
	}
	idx := make([]int, len(top.keys))
	for i := range idx {
		idx[i] = i
	}
	isDecl := func(k string) bool { return k == "bomFormat" || k == "specVersion" || k == "spdxVersion" }
	switch r.Intn(4) {
	case 0:
		sort.Slice(idx, func(i, j int) bool { return top.keys[idx[i]] < top.keys[idx[j]] })
	case 1:
		sort.Slice(idx, func(i, j int) bool { return top.keys[idx[i]] > top.keys[idx[j]] })
	case 2:
		// first declaration member first, the other declaration members last
		var first, mid, last []int
		for _, i := range idx {
			switch {
			case isDecl(top.keys[i]) && len(first) == 0:
				first = append(first, i)
			case isDecl(top.keys[i]):
				last = append(last, i)
			default:
				mid = append(mid, i)
			}
		}
		if len(last) == 0 && len(first) == 1 && r.Intn(2) == 0 {
			first, last = nil, first
		}
		idx = append(append(first, mid...), last...)
	}
	raw := func(v any) []byte {
		var out bytes.Buffer
		var emit func(v any)
		emit = func(v any) {
			switch x := v.(type) {
			case *omap:
				out.WriteByte('{')
				for i := range x.keys {
					if i > 0 {
						out.WriteByte(',')
					}
					kb, _ := json.Marshal(x.keys[i])
					out.Write(kb)
					out.WriteByte(':')
					emit(x.vals[i])
				}
				out.WriteByte('}')
			case []any:
				out.WriteByte('[')
				for i, e := range x {
					if i > 0 {
						out.WriteByte(',')
					}
					emit(e)
				}
				out.WriteByte(']')
			case string:
				sb, _ := json.Marshal(x)
				out.Write(sb)
			case json.Number:
				out.WriteString(x.String())
			case bool:
				fmt.Fprint(&out, x)
			case nil:
				out.WriteString("null")
			}
		}
		emit(v)
		return out.Bytes()
	}
	var out bytes.Buffer
	var cuts []int
	out.WriteByte('{')
	for n, i := range idx {
		if n > 0 {
			out.WriteByte(',')
			cuts = append(cuts, out.Len()) // after the comma
		}
		kb, _ := json.Marshal(top.keys[i])
		out.Write(kb)
		cuts = append(cuts, out.Len()) // after the key
		out.WriteByte(':')
		cuts = append(cuts, out.Len()) // after the colon
		vb := raw(top.vals[i])
		if isDecl(top.keys[i]) && len(vb) > 2 {
			cuts = append(cuts, out.Len()+1+r.Intn(len(vb)-1)) // inside a declaration value
		}
		out.Write(vb)
		cuts = append(cuts, out.Len(), out.Len(), out.Len()) // end of the member value (the favourite)
	}
	out.WriteByte('}')
	cut := cuts[r.Intn(len(cuts))]
	sizes := []int{512, 1024, 2048, 4096, 4096, 4096, 8192, 16384, 32768, 32768, 65536}
	var fit []int
	for _, s := range sizes {
		if s >= cut {
			fit = append(fit, s)
		}
	}
	if len(fit) == 0 {
		return out.Bytes(), true
	}
	B := fit[r.Intn(len(fit))]
	if r.Intn(3) == 0 {
		B = fit[0]
	}
	pad := bytes.Repeat([]byte{' '}, B-cut)
	for i := range pad {
		if i%61 == 60 {
			pad[i] = '\n'
		}
	}
	res := append([]byte{'{'}, pad...)
	res = append(res, out.Bytes()[1:]...)
	return res, true
}

type omap struct {
	keys []string
	vals []any
}

func decodeOrdered(dec *json.Decoder) (any, error) {
	t, err := dec.Token()
	if err != nil {
		return nil, err
	}
	switch d := t.(type) {
	case json.Delim:
		switch d {
		case '{':
			m := &omap{}
			for dec.More() {
				kt, err := dec.Token()
				if err != nil {
					return nil, err
				}
				v, err := decodeOrdered(dec)
				if err != nil {
					return nil, err
				}
				m.keys = append(m.keys, kt.(string))
				m.vals = append(m.vals, v)
			}
			_, err := dec.Token()
			return m, err
		case '[':
			var a []any
			for dec.More() {
				v, err := decodeOrdered(dec)
				if err != nil {
					return nil, err
				}
				a = append(a, v)
			}
			_, err := dec.Token()
			return a, err
		}
	}
	return t, nil
}

// declValueOffsets finds the byte ranges of the top-level declaration values.
func declValueOffsets(b []byte) []int {
	var offs []int
	for _, key := range []string{`"bomFormat"`, `"specVersion"`, `"spdxVersion"`} {
		i := bytes.Index(b, []byte(key))
		if i < 0 {
			continue
		}
		j := i + len(key)
		for j < len(b) && b[j] != '"' {
			j++
		}
		j++
		for j < len(b) && b[j] != '"' {
			offs = append(offs, j)
			j++
		}
		for k := i + 1; k < i+len(key)-1; k++ {
			offs = append(offs, k)
		}
	}
	return offs
}

func genChunkings(r *rand.Rand, n int) [][]int {
	var cs [][]int
	cs = append(cs, nil) // everything at once
	cs = append(cs, []int{1})
	for i := 0; i < 2+r.Intn(3); i++ {
		var c []int
		for j := 0; j < 1+r.Intn(6); j++ {
			c = append(c, []int{1, 2, 3, 7, 16, 61, 512, 4096, 0, -1}[r.Intn(10)])
		}
		cs = append(cs, c)
	}
	return cs
}

func (Engine) Generate(prop string, verifSeed int64, tier string, idx int) *core.Scenario {
	seed := core.SplitMix(uint64(verifSeed), uint64(idx)*2654435761+6)
	r := rand.New(rand.NewSource(int64(seed)))
	sp := &Spec{}
	maxNodes := 4
	if tier == "thorough" && r.Intn(4) == 0 {
		maxNodes = 25
	}
	d := gen.SerialisableDoc(r, "s", maxNodes)
	f := readable[r.Intn(len(readable))]
	indent := r.Intn(9)
	b, err := gen.RenderSafe(f, d, indent)
	sp.F, sp.Indent = f, indent
	k := r.Intn(20)
	if err != nil {
		// the writer produced nothing for this document (C07's subject); detection gets a fixed non-SBOM input
		b, k = []byte(`{"writer":"refused the workload document"}`), 14
	}
	switch {
	case k < 6:
		sp.Kind = "writer-output"
	case k == 9:
		// a re-encoding whose white space puts a top-level token boundary exactly on a buffer-size offset
		sp.Kind = "aligned"
		if nb, ok := aligned(r, b); ok {
			b = nb
		} else {
			sp.Kind = "writer-output"
		}
	case k == 8 && idx%2 == 0:
		// detection of a FILE is a function of what the file holds now: the file is rewritten in place
		// (often with the same length, and - the simulated clock stands still - the same modification time)
		sp.Kind = "file-rewrite"
		f2 := readable[(r.Intn(len(readable)-1)+1+indexOf(readable, f))%len(readable)]
		if fam(f) == "cdx" && r.Intn(3) != 0 {
			for fam(f2) != "cdx" || f2 == f {
				f2 = readable[r.Intn(len(readable))]
			}
		}
		if b2, err := gen.RenderSafe(f2, d, indent); err == nil {
			sp.B2, sp.F2 = base64.StdEncoding.EncodeToString(b2), f2
			if r.Intn(3) == 0 {
				sp.Jump = int64(1+r.Intn(5)) * 1000000000
			}
		} else {
			sp.Kind = "writer-output"
		}
	case k < 9:
		sp.Kind = "relayout"
		if nb, err := relayout(r, b); err == nil {
			b = nb
		} else {
			sp.Kind = "writer-output" // output that is not a single JSON value is delivered as it is
		}
	case k < 14:
		sp.Kind = "nearmiss"
		offs := declValueOffsets(b)
		if len(offs) > 0 {
			for i := 0; i < 1+r.Intn(2); i++ {
				sp.Faults = append(sp.Faults, StreamFault{Kind: "flip", Off: offs[r.Intn(len(offs))], Xor: []int{1, 2, 3, 4, 0x20}[r.Intn(5)]})
			}
		}
	case k < 15:
		sp.Kind = "nonsbom"
		sp.F = ""
		cands := [][]byte{[]byte(`{"hello":"world","specVersion":"1.5"}`), []byte(`[1,2,3]`), []byte(`"spdxVersion"`), []byte(`{"bomFormat":"CycloneDX","specVersion":"1.6"}`),
			[]byte(`{"bomFormat":"cyclonedx","specVersion":"1.4","spdxVersion":"SPDX-2.3"}`), []byte(`{"spdxVersion":"SPDX-2.4"}`), []byte(`{"spdxVersion":"SPDX-2.2"}`),
			[]byte(`null`), []byte(`{"bomFormat":null,"specVersion":15}`), []byte("\xff\xfe\x00"),
			[]byte(" "), []byte("\n\n"), []byte("\xef\xbb\xbf"), []byte("{"), []byte("\""), []byte("1"), []byte("[]"), []byte("{}"),
			[]byte(`{"specVersion":"1.4","bomFormat":"CycloneDX","specVersion":"1.5"}`), []byte(`{"spdxVersion":"SPDX-2.2","spdxVersion":"SPDX-2.3"}`),
			[]byte(`{"metadata":{"bomFormat":"CycloneDX","specVersion":"1.5"}}`), []byte(`{"x":[{"spdxVersion":"SPDX-2.3"}]}`),
			[]byte(`{"bomFormat":"CycloneDX","specVersion":" 1.5"}`), []byte(`{"spdxVersion":"spdx-2.3"}`), []byte(`{"spdxVersion":" SPDX-2.3 "}`)}
		b = cands[r.Intn(len(cands))]
	case k < 16:
		sp.Kind = "tagvalue"
		sp.F = ""
		b = [][]byte{tvFile(), []byte("SPDXVersion:\n  \"SPDX-2.3\"\n"), []byte("SPDXVersion: SPDX-2.2\n"), []byte("DataLicense: CC0-1.0\n'SPDX-2.3'\n"),
			[]byte("# " + strings.Repeat("long line ", 9000) + "\nSPDXVersion: SPDX-2.3\n"), []byte(strings.Repeat("x", 70000))}[r.Intn(6)]
	case k < 17:
		sp.Kind = "empty"
		sp.F = ""
		b = nil
	case k == 17 && (idx%40 == 0 || (tier == "thorough" && idx%8 == 0)):
		// a large document whose declaration members come last
		sp.Kind = "large-late"
		pad := strings.Repeat("padding ", 1<<uint(14+r.Intn(4)))
		var top map[string]json.RawMessage
		if err := json.Unmarshal(b, &top); err == nil {
			var buf bytes.Buffer
			buf.WriteString(`{"zz_padding":"` + pad + `"`)
			var keys []string
			for k := range top {
				keys = append(keys, k)
			}
			sort.Strings(keys)
			var late []string
			for _, k := range keys {
				if k == "bomFormat" || k == "specVersion" || k == "spdxVersion" {
					late = append(late, k)
					continue
				}
				fmt.Fprintf(&buf, ",%q:%s", k, top[k])
			}
			for _, k := range late {
				fmt.Fprintf(&buf, ",%q:%s", k, top[k])
			}
			buf.WriteString("}")
			b = buf.Bytes()
			// the twin: same bytes up to the declaration, another format
			f2 := readable[(r.Intn(len(readable)-1)+1+indexOf(readable, f))%len(readable)]
			if b2, err := gen.RenderSafe(f2, d, indent); err == nil {
				var top2 map[string]json.RawMessage
				if json.Unmarshal(b2, &top2) == nil {
					var buf2 bytes.Buffer
					buf2.WriteString(`{"zz_padding":"` + pad + `"`)
					for _, k := range []string{"bomFormat", "specVersion", "spdxVersion"} {
						if v, ok := top2[k]; ok {
							fmt.Fprintf(&buf2, ",%q:%s", k, v)
						}
					}
					buf2.WriteString("}")
					sp.B2, sp.F2 = base64.StdEncoding.EncodeToString(buf2.Bytes()), f2
				}
			}
		}
	case k < 18:
		sp.Kind = "truncate-all"
		small := gen.SerialisableDoc(r, "t", 1)
		if sb, err := gen.RenderSafe(f, small, 0); err == nil {
			b = sb
		}
	default:
		// stream faults on writer output
		sp.Kind = "writer-output"
		off := r.Intn(len(b) + 1)
		if r.Intn(2) == 0 {
			offs := declValueOffsets(b)
			if len(offs) > 0 {
				off = offs[r.Intn(len(offs))]
			}
		}
		switch r.Intn(4) {
		case 0:
			sp.Faults = append(sp.Faults, StreamFault{Kind: "err", Off: off, Perm: r.Intn(2) == 0, With: r.Intn(3) == 0})
		case 1:
			sp.Faults = append(sp.Faults, StreamFault{Kind: "eof", Off: off})
		case 2:
			sp.Faults = append(sp.Faults, StreamFault{Kind: "seekfail", Nth: r.Intn(2)})
		case 3:
			sp.Faults = append(sp.Faults, StreamFault{Kind: "flip", Off: off, Xor: 1 + r.Intn(255)})
		}
	}
	sp.B = base64.StdEncoding.EncodeToString(b)
	if cs := gen.SizeConstants("formats"); len(cs) > 0 && (sp.Kind == "writer-output" || sp.Kind == "relayout") && len(sp.Faults) == 0 && r.Intn(300) == 0 && len(b) > 0 && b[0] == '{' {
		// a size the detector's own code names (a window, a buffer): the document is padded with white space to that size, a bit less, a bit more
		c := cs[r.Intn(len(cs))]
		sp.PadWS = c + int64([]int{-1 - len(b), -len(b), 1 - len(b), 1, 4096}[r.Intn(5)])
		if sp.PadWS < 0 {
			sp.PadWS = 0
		}
	}
	if r.Intn(4) == 0 {
		sp.ReaderAt = true
	}
	if r.Intn(5) == 0 && len(b) > 2 {
		sp.StartOff = 1 + r.Intn(len(b)-1)
	}
	sp.Chunkings = genChunkings(r, len(b))
	if sp.PadWS > 1<<20 {
		sp.Chunkings = [][]int{nil, {65536}} // megabytes: not byte by byte
		sp.StartOff = 0
	}
	sp.EOFWith = r.Intn(3) == 0
	sc := &core.Scenario{V: 1, Property: "C06", Engine: "stream", VerifSeed: verifSeed, Run: idx, RunSeed: seed}
	sc.Sched = verifsim.Config{Seed: seed, Policy: "serial", MaxSteps: 20000000, MapOrder: "random"}
	sc.Spec = encodeSpec(sp)
	return sc
}

func indexOf(xs []string, x string) int {
	for i, v := range xs {
		if v == x {
			return i
		}
	}
	return 0
}

func tvFile() []byte {
	b, err := os.ReadFile(os.Getenv("VERIF_HOME") + "/internal/gen/testdata/pause.spdx")
	if err != nil {
		panic(err)
	}
	return b
}

// declared derives what the top-level JSON declaration of b says, with an
// independent decode (member names compared case-insensitively, as Go's JSON
// struct decoding does).
func declared(b []byte) (typ, version string, isJSON bool) {
	// the first JSON value of the stream, as a streaming decoder sees it: data after the value is
	// not part of the declaration (detection is not a validator of what follows)
	var top map[string]json.RawMessage
	if err := json.NewDecoder(bytes.NewReader(b)).Decode(&top); err != nil {
		return "", "", false
	}
	get := func(name string) string {
		var keys []string
		for k := range top {
			keys = append(keys, k)
		}
		sort.Strings(keys)
		val := ""
		for _, k := range keys {
			if strings.EqualFold(k, name) {
				var s string
				if json.Unmarshal(top[k], &s) == nil {
					val = s
				}
			}
		}
		return val
	}
	bf, sv, spv := get("bomFormat"), get("specVersion"), get("spdxVersion")
	if strings.EqualFold(bf, "CycloneDX") {
		return "cyclonedx", sv, true
	}
	if strings.HasPrefix(spv, "SPDX-") {
		return "spdx", strings.TrimPrefix(spv, "SPDX-"), true
	}
	return "", "", true
}

type outcome struct {
	f      formats.Format
	err    error
	abort  string
	msg    string
	pos    int64
	posErr error
}

func sniff(sr io.ReadSeeker) (o outcome) {
	defer func() {
		if p := recover(); p != nil {
			switch v := p.(type) {
			case core.ExitSentinel:
				o.abort, o.msg = "process-exit", fmt.Sprint(v.Code)
			default:
				o.abort, o.msg = "panic", fmt.Sprint(p)
			}
		}
	}()
	o.f, o.err = (&formats.Sniffer{}).SniffReader(sr)
	return
}

func docHash(d *sbom.Document) string {
	if d == nil {
		return "nil"
	}
	s := gen.Dump(d)
	if strings.Contains(s, "spdxdocs/protobom-") {
		// an SPDX document without namespace gets a generated (entropy dependent) identifier
		s = uuidRe.ReplaceAllString(s, "UUID")
	}
	return gen.HashHex(s)
}

var uuidRe = regexp.MustCompile(`[0-9a-f]{8}-[0-9a-f]{4}-[0-9a-f]{4}-[0-9a-f]{4}-[0-9a-f]{12}`)

var prepared bool

func (Engine) Execute(sc *core.Scenario) *core.Result {
	if !prepared {
		prepared = true
		core.InstallExitHooks()
		uuid.SetRand(rand.New(rand.NewSource(1)))
	}
	res := &core.Result{Faults: map[string]int{}, Probes: map[string]int{}}
	sp, err := decodeSpec(sc)
	if err != nil {
		res.Harness = err.Error()
		return res
	}
	data, _ := base64.StdEncoding.DecodeString(sp.B)
	if sp.PadWS > 0 && len(data) > 0 && data[0] == '{' {
		padded := make([]byte, 0, len(data)+int(sp.PadWS))
		padded = append(padded, '{')
		padded = append(padded, bytes.Repeat([]byte{' '}, int(sp.PadWS))...)
		data = append(padded, data[1:]...)
		res.Probes["document padded to a size the detector's code names"]++
	}
	verifsim.ClockSet(1700000000 * 1000000000)
	var outs []string
	body := func(*verifsim.Task) {
		verifsim.OpBegin()
		defer verifsim.OpEnd()
		if sp.Kind == "file-rewrite" {
			d2, _ := base64.StdEncoding.DecodeString(sp.B2)
			outs = append(outs, fileHistory(res, sp, data, d2)...)
			return
		}
		if sp.Kind == "truncate-all" {
			for off := 0; off <= len(data); off++ {
				outs = append(outs, judge(res, sp, data[:off], nil, false, []StreamFault{{Kind: "eof-at", Off: off}}, off < len(data)))
			}
			return
		}
		if sp.B2 != "" {
			defer func() {
				d2, _ := base64.StdEncoding.DecodeString(sp.B2)
				sp2 := *sp
				sp2.F, sp2.Kind = sp.F2, "same-prefix-twin"
				outs = append(outs, judge(res, &sp2, d2, nil, false, nil, false))
				res.Probes["second input sharing a long prefix with the first"]++
			}()
		}
		var first string
		for ci, ch := range sp.Chunkings {
			o := judge(res, sp, data, ch, sp.EOFWith && ci%2 == 1, sp.Faults, false)
			outs = append(outs, o)
			if ci == 0 {
				first = o
			} else if o != first && !hasPositional(sp.Faults) {
				res.Violate("sniff:chunking:"+fam(sp.F), fmt.Sprintf("the same bytes gave %q when delivered in one piece and %q when delivered as chunks %v", first, o, ch))
			}
		}
	}
	sr := verifsim.Run(sc.Sched, []func(*verifsim.Task){body})
	res.Sched = sr
	res.Ops = len(outs)
	if sr.Hang {
		res.Violate("sniff:hang", "step budget exceeded: detection does not return")
	}
	res.Outcomes = outs
	h := sr.LogHash
	for _, o := range outs {
		h = h*1099511628211 ^ core.HashStr(o)
	}
	res.LogHash = fmt.Sprintf("%016x", h)
	res.Nontrivial = res.Probes["read split into >= 2 chunks"] > 0 || len(res.Faults) > 0
	res.Key = fmt.Sprintf("%016x", core.HashStr(string(sc.Spec)))
	res.States = []string{sp.Kind + ":" + strings.Join(outs, ",")}
	if sc.Run%97 == 0 {
		res.Sample = map[string]any{"run": sc.Run, "kind": sp.Kind, "format": sp.F, "indent": sp.Indent, "bytes": len(data), "chunkings": sp.Chunkings, "faults": sp.Faults, "outcomes": outs}
	}
	return res
}

// fileHistory: the file holds version 1, is sniffed (twice), is rewritten in place with version 2, is sniffed again.
func fileHistory(res *core.Result, sp *Spec, v1, v2 []byte) []string {
	disk := simos.NewDisk(1000)
	disk.Quiet = true
	disk.PutDir("/in", 0o755, 1000)
	disk.MtimeGranularity = []int64{4000000, 1000000000, 2000000000}[len(v1)%3]
	simos.Mount(disk)
	defer simos.Mount(nil)
	const path = "/in/doc.json"
	var outs []string
	look := func(want string, when string) {
		var f formats.Format
		var err error
		abort, msg := "", ""
		func() {
			defer func() {
				if p := recover(); p != nil {
					abort, msg = "panic", fmt.Sprint(p)
					if v, ok := p.(core.ExitSentinel); ok {
						abort, msg = "process-exit", fmt.Sprint(v.Code)
					}
				}
			}()
			f, err = (&formats.Sniffer{}).SniffFile(path)
		}()
		out := "fmt:" + string(f)
		switch {
		case abort != "":
			out = abort
			res.Violate("sniff:"+abort+":"+fam(want), fmt.Sprintf("SniffFile ended in %s (%s)", abort, msg))
		case err != nil:
			out = "err"
		}
		if abort == "" && out != "fmt:"+want {
			res.Violate("sniff:file-history:"+fam(want), fmt.Sprintf("SniffFile %s: the file holds the writer's %s output but detection returned %s", when, want, out))
		}
		outs = append(outs, out)
	}
	if err := simos.WriteFile(path, v1, 0o644); err != nil {
		res.Harness = "C06 file history: " + err.Error()
		return outs
	}
	look(sp.F, "of the first version")
	look(sp.F, "of the first version, again")
	if sp.Jump != 0 {
		verifsim.ClockJump(time.Duration(sp.Jump))
	}
	if err := simos.WriteFile(path, v2, 0o644); err != nil {
		res.Harness = "C06 file history: " + err.Error()
		return outs
	}
	if len(v1) == len(v2) {
		res.Probes["file rewritten in place with the same length"]++
		if sp.Jump == 0 {
			res.Probes["file rewritten in place with the same length and modification time"]++
		}
	}
	look(sp.F2, "after the file was rewritten in place")
	return outs
}

func hasPositional(fs []StreamFault) bool {
	for _, f := range fs {
		if f.Kind == "err" || f.Kind == "seekfail" {
			return true
		}
	}
	return false
}

func fam(f string) string {
	switch {
	case strings.Contains(f, "spdx"):
		return "spdx"
	case strings.Contains(f, "cyclonedx"):
		return "cdx"
	}
	return "none"
}

// judge runs detection (and the following parse) on one delivery of the bytes.
func judge(res *core.Result, sp *Spec, data []byte, chunks []int, eofWith bool, faults []StreamFault, truncated bool) string {
	var real []StreamFault
	for _, f := range faults {
		if f.Kind != "eof-at" {
			real = append(real, f)
		}
	}
	sr := newSimReader(data, chunks, eofWith, real)
	if sp.StartOff > 0 && sp.StartOff <= len(sr.data) {
		sr.pos = sp.StartOff // the caller had a look at the stream before asking what it is
		res.Probes["stream handed over at a non-zero offset"]++
	}
	var rs io.ReadSeeker = sr
	if sp.ReaderAt {
		rs = simReaderAt{sr}
	}
	o := sniff(rs)
	for k, v := range sr.fired {
		res.Faults[k] += v
	}
	if sr.split {
		res.Probes["read split into >= 2 chunks"]++
	}
	fm := fam(sp.F)
	if o.abort != "" {
		res.Violate("sniff:"+o.abort+":"+fm, fmt.Sprintf("SniffReader ended in %s (%s) on a %s input of %d bytes", o.abort, o.msg, sp.Kind, len(sr.data)))
		return o.abort
	}
	out := ""
	switch {
	case o.err != nil && o.f != "":
		res.Violate("sniff:both:"+fm, fmt.Sprintf("SniffReader returned format %q together with error %v", o.f, o.err))
		out = "both"
	case o.err == nil && o.f == "":
		res.Violate("sniff:neither:"+fm, "SniffReader returned neither a format nor an error")
		out = "neither"
	case o.err != nil:
		out = "err"
	default:
		out = "fmt:" + string(o.f)
	}
	streamFault := sr.fired["err"] > 0 || sr.fired["seekfail"] > 0
	contentFault := sr.fired["flip"] > 0 || sr.fired["eof"] > 0 || truncated
	seekFault := sr.fired["seekfail"] > 0

	// position: the stream is left at its start
	if !seekFault && !sr.dead {
		pos, perr := sr.Seek(0, io.SeekCurrent)
		if perr == nil && pos != 0 {
			res.Violate("sniff:offset:"+fm, fmt.Sprintf("after SniffReader the stream is at offset %d, not at its start (input kind %s, result %s)", pos, sp.Kind, out))
		}
	}

	if sp.StartOff > 0 {
		// Handed over in mid-stream: the property promises where the stream is left (checked above) and
		// totality; what detection makes of a stream it did not get from its start is not specified.
		return out
	}
	// what does the input itself declare (independent decode of the bytes actually delivered)
	dt, dv, isJSON := declared(sr.data)
	if o.err == nil && o.f != "" && isJSON {
		f := o.f
		if f.Version() != "" && strings.Count(f.Version(), ".") == 1 && f.Major()+"."+f.Minor() != f.Version() {
			res.Violate("sniff:declared:"+fm, fmt.Sprintf("reported format %q: Major() %q and Minor() %q do not make up Version() %q", f, f.Major(), f.Minor(), f.Version()))
		}
		if u := f.URI(); u == "" || !strings.HasPrefix(string(f), u+"+") {
			res.Violate("sniff:declared:"+fm, fmt.Sprintf("reported format %q: URI() is %q", f, u))
		}
		if f.Type() != dt || f.Version() != dv || f.Encoding() != formats.JSON {
			res.Violate("sniff:declared:"+fm, fmt.Sprintf("SniffReader reported %q (type %q version %q encoding %q) but the input's top-level declaration says type %q version %q", f, f.Type(), f.Version(), f.Encoding(), dt, dv))
		}
	}

	switch {
	case sp.F != "" && !streamFault && !contentFault:
		// writer output (possibly re-laid out), delivered without fault: exactly the writer's format
		if out != "fmt:"+sp.F {
			res.Violate("sniff:format:"+fm, fmt.Sprintf("detection of the writer's %s output (indent %d, %s) returned %s", sp.F, sp.Indent, sp.Kind, out))
		}
		// the following parse on the same reader sees the whole document
		res.Probes["sniff then parse on the same stream"]++
		rd := reader.New()
		d1, err1 := parseGuard(func() (*sbom.Document, error) { return rd.ParseStream(rs) })
		d2, err2 := parseGuard(func() (*sbom.Document, error) {
			return rd.ParseStreamWithOptions(bytes.NewReader(sr.data), &reader.Options{Format: formats.Format(sp.F), UnserializeOptions: &native.UnserializeOptions{}})
		})
		if sr.fired["err"] > 0 || sr.fired["seekfail"] > 0 {
			// an injected fault that detection never reached (it lies behind the first JSON value, e.g. in
			// the trailing newline) hit the parse instead: the parse may fail, nothing to compare
			res.Probes["stream fault hit the parse after a clean detection"]++
		} else if (err1 == nil) != (err2 == nil) || (err1 == nil && docHash(d1) != docHash(d2)) {
			res.Violate("sniff:parse-differs:"+fm, fmt.Sprintf("parsing the stream after detection (err=%v) differs from parsing the same bytes with the format stated explicitly (err=%v)", err1, err2))
		}
	case sp.F != "" && streamFault:
		// a stream fault fired: the right format or an error, never another format
		if out != "err" && out != "fmt:"+sp.F {
			res.Violate("sniff:format-under-fault:"+fm, fmt.Sprintf("under a stream fault detection returned %s; allowed are %s or an error", out, sp.F))
		}
	case sp.F != "" && contentFault:
		// flipped/truncated content is a different input: judged by the declaration clause above;
		// a format other than what the bytes declare is caught there when the bytes are still JSON.
		if !isJSON && strings.HasPrefix(out, "fmt:") && strings.Contains(out, "json") {
			res.Violate("sniff:declared:"+fm, fmt.Sprintf("input is not decodable JSON but detection reported the JSON format %s", out))
		}
	}
	if len(chunks) > 0 && sr.split && containsDeclSplit(sr.data, chunks) {
		res.Probes["read boundary inside a declaration value"]++
	}
	return out
}

func containsDeclSplit(data []byte, chunks []int) bool {
	offs := declValueOffsets(data)
	if len(offs) == 0 {
		return false
	}
	set := map[int]bool{}
	for _, o := range offs {
		set[o] = true
	}
	pos := 0
	for i := 0; pos < len(data) && i < 100000; i++ {
		c := chunks[i%len(chunks)]
		if c == 0 {
			return false
		}
		pos += c
		if set[pos] {
			return true
		}
	}
	return false
}

func parseGuard(f func() (*sbom.Document, error)) (d *sbom.Document, err error) {
	defer func() {
		if p := recover(); p != nil {
			err = fmt.Errorf("panic: %v", p)
		}
	}()
	return f()
}

func (Engine) Shrinks(sc *core.Scenario) []*core.Scenario {
	sp, err := decodeSpec(sc)
	if err != nil {
		return nil
	}
	var out []*core.Scenario
	mk := func(n *Spec) {
		c := *sc
		c.Spec = encodeSpec(n)
		out = append(out, &c)
	}
	if len(sp.Chunkings) > 1 {
		for i := range sp.Chunkings {
			n := *sp
			n.Chunkings = [][]int{sp.Chunkings[0]}
			if i > 0 {
				n.Chunkings = [][]int{sp.Chunkings[0], sp.Chunkings[i]}
			}
			mk(&n)
		}
	}
	for i := range sp.Faults {
		n := *sp
		n.Faults = append(append([]StreamFault{}, sp.Faults[:i]...), sp.Faults[i+1:]...)
		mk(&n)
	}
	if sp.EOFWith {
		n := *sp
		n.EOFWith = false
		mk(&n)
	}
	return out
}

func (Engine) PerProcess(prop string) int { return 100 }

func (Engine) Runs(prop, tier string) int {
	if tier == "thorough" {
		return 400000
	}
	return 24000
}

func (Engine) Describe(prop string) core.Description {
	return core.Description{
		Level: "exploration",
		Rule: "generated document -> built-in serializer (SPDX 2.3, CycloneDX 1.3/1.4/1.5, indent 0-8) -> bytes, optionally re-laid out (member order, whitespace, \\u escapes), with flipped declaration bytes (near misses), non-SBOM JSON, tag-value text, empty input, or truncated at EVERY offset of a small document; the bytes are delivered through a simulated io.ReadSeeker under several chunkings (1 byte, few bytes, buffer-sized, all at once; n>0 with EOF) and stream faults (transient/permanent read error at an offset, EOF at an offset, flipped stored byte, failing Seek); after detection the same stream is parsed and compared with an explicit-format parse; a case is distinct by (bytes, chunkings, faults) and non-trivial when a read was split into >= 2 chunks or a fault fired",
		RealCode: []string{"pkg/formats (Sniffer), pkg/reader, unserializers, serializers (instrumented at build time)", "encoding/json", "cyclonedx-go", "tools-golang"},
		Simulated: []string{"the io.ReadSeeker argument (chunking, read errors, EOF, flipped bytes, seek failures)"},
		Stubs: []string{},
		Assumptions: []string{
			"the first clause (right format for everything the writer emits) is a statement about inputs: it is checked on the documents the workload generates (all four readable formats, indent 0-8, re-encodings), which is sampling",
			"the top-level declaration is decoded independently with encoding/json; member names are matched case-insensitively like Go's struct decoding",
		},
		NoSimTime: "not applicable: detection has no timers; logical steps (reads) are reported instead",
	}
}
