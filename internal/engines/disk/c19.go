package disk

import (
	"crypto/sha256"
	"encoding/base64"
	"fmt"
	"math/rand"
	"strings"

	"github.com/protobom/protobom/pkg/sbom"
	"github.com/protobom/protobom/pkg/storage"
	verifsim "github.com/protobom/protobom/pkg/verifsim"
	"github.com/protobom/protobom/pkg/verifsim/simos"
	"google.golang.org/protobuf/proto"

	"verif/internal/core"
	"verif/internal/gen"
)

var faultKinds = []string{"EACCES", "EIO", "ENOSPC", "EMFILE", "EROFS"}

func genC19(verifSeed int64, tier string, idx int) *core.Scenario {
	seed := core.SplitMix(uint64(verifSeed), uint64(idx)*2654435761+19)
	r := rand.New(rand.NewSource(int64(seed)))
	sp := &Spec{}
	sp.UID = []int{0, 1000, 1000}[r.Intn(3)]
	sp.DirState = []string{"exists", "exists", "missing", "missing-deep", "file"}[r.Intn(5)]
	switch sp.DirState {
	case "exists":
		sp.Path = []string{"/data/store", "store-rel", "/data/store/"}[r.Intn(3)]
	case "missing":
		sp.Path = []string{"/data/new", "new-rel", "/data/new/"}[r.Intn(3)]
	case "missing-deep":
		sp.Path = []string{"/data/a/b/c", "rel/a/b", "/data/a/b/c/"}[r.Intn(3)]
	case "file":
		sp.Path = "/data/afile"
	}
	if sp.DirState != "file" && r.Intn(3) == 0 {
		if strings.HasPrefix(sp.Path, "/") {
			sp.Path2 = "/data/second"
		} else {
			sp.Path2 = "second-rel"
		}
	}
	sp.Faulty = r.Intn(2) == 0
	nids := 2 + r.Intn(5)
	for i := 0; i < nids; i++ {
		// identifiers that some normalisation could confuse with an earlier one of this run
		if i > 0 && r.Intn(3) == 0 {
			sp.IDs = append(sp.IDs, confusable(r, sp.IDs[r.Intn(len(sp.IDs))]))
			continue
		}
		switch k := r.Intn(12); {
		case k == 0 && tier == "thorough":
			sp.IDs = append(sp.IDs, longID(r))
		case k < 8:
			sp.IDs = append(sp.IDs, hostileIDs[r.Intn(len(hostileIDs))])
		default:
			sp.IDs = append(sp.IDs, fmt.Sprintf("doc-%d", r.Intn(4)))
		}
	}
	ndocs := 2 + r.Intn(3)
	for i := 0; i < ndocs; i++ {
		mn := 1 + r.Intn(5)
		if i == 0 && r.Intn(10) == 0 {
			// one large document (beyond any plausible fixed buffer): a few hundred KiB, in the thorough tier some MiB
			mn = 300 + r.Intn(500)
			if tier == "thorough" && r.Intn(3) == 0 {
				mn = 3000 + r.Intn(3000)
			}
		}
		d := genDoc(r, fmt.Sprintf("d%d", i), mn)
		b, err := proto.MarshalOptions{Deterministic: true}.Marshal(d)
		if err != nil {
			panic(err)
		}
		sp.Docs = append(sp.Docs, b64(b))
	}
	twin := -1
	if r.Intn(5) == 0 && ndocs >= 2 {
		// a twin of document 0 with the same encoded size: one character differs, near the end or near the start
		raw, _ := base64.StdEncoding.DecodeString(sp.Docs[0])
		d := &sbom.Document{}
		if proto.Unmarshal(raw, d) == nil && d.Metadata != nil {
			flip := func(s string) string {
				if s == "" {
					return s
				}
				b := []byte(s)
				if b[len(b)-1] == 'x' {
					b[len(b)-1] = 'y'
				} else {
					b[len(b)-1] = 'x'
				}
				return string(b)
			}
			if nl := d.NodeList; nl != nil && len(nl.Nodes) > 0 && r.Intn(2) == 0 {
				n := nl.Nodes[len(nl.Nodes)-1]
				n.Name, n.Version = flip(n.Name), flip(n.Version)
				if n.Name == "" && n.Version == "" {
					d.Metadata.Name = flip(d.Metadata.Name)
				}
			} else {
				d.Metadata.Name = flip(d.Metadata.Name)
				d.Metadata.Version = flip(d.Metadata.Version)
			}
			before := len(raw)
			if b, err := (proto.MarshalOptions{Deterministic: true}).Marshal(d); err == nil && len(b) == before && string(b) != string(raw) {
				sp.Docs[1] = b64(b)
				twin = 1
			}
		}
	}
	if r.Intn(3) == 0 {
		for i := 0; i < 6; i++ {
			sp.WriteSplit = append(sp.WriteSplit, []int{0, 1, 7, 64, 300}[r.Intn(5)])
		}
	}
	if r.Intn(3) == 0 {
		sp.ReadChunk = []int{1, 3, 64, 512}[r.Intn(4)]
	}
	nsteps := 3 + r.Intn(23)
	if tier != "thorough" && nsteps > 14 {
		nsteps = 3 + r.Intn(12)
	}
	stored := false
	for i := 0; i < nsteps; i++ {
		var st Step
		via := []string{"fs", "fs", "rw", "rwb", "fsnil", "fsnew", "fsnew"}[r.Intn(7)]
		k := r.Intn(10)
		switch {
		case k < 5 || !stored:
			st = Step{K: "Store", D: r.Intn(ndocs), ID: r.Intn(nids), NoClobber: r.Intn(3) == 0, Via: via}
			if r.Intn(15) == 0 {
				st.NoID = true
			}
			stored = true
		case k < 8:
			st = Step{K: "Retrieve", ID: r.Intn(nids), Via: via}
		case sp.Path2 != "" && k == 8 && r.Intn(2) == 0:
			st = Step{K: "Repoint"}
		case sp.DirState != "file" && k == 9 && r.Intn(3) == 0:
			st = Step{K: "RmDir"} // somebody removes the data directory: it is missing again and must be created again
		default:
			st = Step{K: "Damage", ID: r.Intn(nids), Dmg: []string{"trunc0", "truncmid", "garbage", "chmod000", "truncsmall", "garbagesmall", "flipbyte", "isdir"}[r.Intn(8)], D: r.Intn(1 << 16)}
		}
		if sp.Faulty && st.K != "Damage" && r.Intn(4) == 0 {
			st.Fault = &FaultSpec{K: r.Intn(8), Kind: faultKinds[r.Intn(len(faultKinds))], Arg: r.Intn(40), Sticky: r.Intn(4) == 0}
		}
		sp.Steps = append(sp.Steps, st)
	}
	if twin > 0 {
		ii := r.Intn(nids)
		sp.Steps = append([]Step{{K: "Store", D: 0, ID: ii, Via: "fs"}, {K: "Store", D: twin, ID: ii, Via: "fs"}, {K: "Retrieve", ID: ii, Via: "fs"}}, sp.Steps...)
	}
	if r.Intn(6) == 0 {
		// an entry whose encoded size is an exact multiple of a typical buffer size
		B := []int{512, 4096, 32768, 65536}[r.Intn(4)]
		di, ii := r.Intn(ndocs), r.Intn(nids)
		raw, _ := base64.StdEncoding.DecodeString(sp.Docs[di])
		d := &sbom.Document{}
		if proto.Unmarshal(raw, d) == nil && d.Metadata != nil {
			keep := d.Metadata.Id
			d.Metadata.Id = sp.IDs[ii]
			size := func() int { return proto.Size(d) }
			target := (size()/B + 1) * B
			for tries := 0; tries < 8 && size() != target; tries++ {
				if diff := target - size(); diff > 0 {
					d.Metadata.Comment += strings.Repeat("p", diff)
				} else if -diff <= len(d.Metadata.Comment) {
					d.Metadata.Comment = d.Metadata.Comment[:len(d.Metadata.Comment)+diff]
				} else {
					target += B
				}
			}
			if size() == target {
				d.Metadata.Id = keep
				if b, err := (proto.MarshalOptions{Deterministic: true}).Marshal(d); err == nil {
					sp.Docs[di] = b64(b)
					sp.Steps = append([]Step{{K: "Store", D: di, ID: ii, Via: "fs"}, {K: "Retrieve", ID: ii, Via: "fs"}}, sp.Steps...)
					sp.Aligned = B
				}
			}
		}
	}
	if cs := gen.SizeConstants("storage"); len(cs) > 0 && r.Intn(400) == 0 {
		// a size that the storage code itself names (a limit, a buffer): the entry is exactly that large, one less, one more
		c := cs[r.Intn(len(cs))]
		sp.PadTo = c + int64(r.Intn(3)) - 1
		sp.PadDoc, sp.PadID = r.Intn(ndocs), r.Intn(nids)
		sp.WriteSplit, sp.ReadChunk = nil, 0
		sp.Steps = []Step{{K: "Store", D: sp.PadDoc, ID: sp.PadID, Via: "fs"}, {K: "Retrieve", ID: sp.PadID, Via: "fs"}, {K: "Store", D: sp.PadDoc, ID: sp.PadID, Via: "rw"}, {K: "Retrieve", ID: sp.PadID, Via: "fsnew"}}
	}
	sc := &core.Scenario{V: 1, Property: "C19", Engine: "disk", VerifSeed: verifSeed, Run: idx, RunSeed: seed}
	sc.Sched = verifsim.Config{Seed: seed, Policy: "serial", MaxSteps: 400000000, MapOrder: "random"} // 64 KiB entries read byte by byte are legitimate work
	sc.Spec = encodeSpec(sp)
	return sc
}

// confusable derives an identifier that differs from id but that a lossy file-name
// mapping (escaping, trimming, case folding, path cleaning, truncation) might map to the same entry.
func confusable(r *rand.Rand, id string) string {
	esc := func(upper bool) string {
		var sb strings.Builder
		for i := 0; i < len(id); i++ {
			c := id[i]
			if (c >= 'a' && c <= 'z') || (c >= 'A' && c <= 'Z') || (c >= '0' && c <= '9') || c == '-' || c == '_' {
				sb.WriteByte(c)
			} else if upper {
				fmt.Fprintf(&sb, "%%%02X", c)
			} else {
				fmt.Fprintf(&sb, "%%%02x", c)
			}
		}
		return sb.String()
	}
	switch r.Intn(18) {
	case 16:
		// what a hashing store would call the entry of id: a "simple" identifier that looks like a file stem
		return fmt.Sprintf("%x", sha256.Sum256([]byte(id)))
	case 17:
		return fmt.Sprintf("%x.protobom", sha256.Sum256([]byte(id)))
	case 12:
		if len(id) > 1 {
			return id[:len(id)-1] // a proper prefix
		}
		return id + "x"
	case 13:
		return id + "x"
	case 14:
		return "x" + id
	case 15:
		if len(id) > 1 {
			return id[1:] // a proper suffix
		}
		return "y" + id
	case 0:
		return esc(true)
	case 1:
		return esc(false)
	case 2:
		return id + " "
	case 3:
		return id + "."
	case 4:
		return strings.ToUpper(id)
	case 5:
		return strings.ToLower(id)
	case 6:
		return strings.ReplaceAll(id, "/", "//")
	case 7:
		return "./" + id
	case 8:
		return strings.ReplaceAll(id, "/", "_")
	case 9:
		return strings.ReplaceAll(id, "/", "\\")
	case 10:
		return id + "\x00"
	default:
		// same long prefix, different tail
		return strings.Repeat("P", 300) + id
	}
}

func (e *env) violate(sig, detail string) { e.res.Violate(sig, detail) }

// checkAll retrieves every identifier of the run on a quiet, fault-free disk and
// compares with the model.
func (e *env) checkAll(after string) {
	saveF, saveQ, saveC := e.disk.Faults, e.disk.Quiet, e.disk.ReadChunk
	e.disk.Faults, e.disk.Quiet, e.disk.ReadChunk = nil, true, 0 // the model comparison reads in one piece
	defer func() { e.disk.Faults, e.disk.Quiet, e.disk.ReadChunk = saveF, saveQ, saveC }()
	seen := map[string]bool{}
	for _, id := range e.sp.IDs {
		if seen[id] || id == "" {
			continue
		}
		seen[id] = true
		e.checkOne(id, "fs", after, false)
	}
}

// checkOne performs Retrieve(id) and judges the result against the model.
// faulted: an injected fault fired during this retrieve (relaxation applies).
func (e *env) checkOne(id, via, after string, faulted bool) string {
	m := e.model[id]
	doc, err, abort, msg := e.retrieve(id, via)
	if faulted {
		// relaxation applies only if an injected fault actually fired during this call
		faulted = e.firedBefore >= 0 && totalFired(e.disk) > e.firedBefore
		if faulted {
			e.res.Probes["retrieve under an injected fault"]++
		}
	}
	state := "absent"
	switch {
	case m == nil || (m.doc == nil && !m.uncertain):
		state = "absent"
	case m.damaged != "":
		state = "damaged-" + m.damaged
	case m.uncertain:
		state = "after-failed-store"
	default:
		state = "present"
	}
	if abort != "" {
		e.violate(fmt.Sprintf("store:Retrieve:%s:%s", abort, state), fmt.Sprintf("Retrieve(%q) of an entry that is %s ended in %s (%s) %s", short(id), state, abort, first(msg), after))
		return abort
	}
	if doc == nil && err == nil {
		e.violate("store:Retrieve:nilnil:"+state, fmt.Sprintf("Retrieve(%q) of an entry that is %s returned (nil, nil) %s", short(id), state, after))
		return "nilnil"
	}
	switch state {
	case "absent":
		if err == nil {
			cls := "doc-without-error"
			if isEmptyDoc(doc) {
				cls = "empty-doc"
			}
			e.violate("store:Retrieve:"+cls+":absent", fmt.Sprintf("Retrieve(%q) of an identifier that was never stored returned a document and no error %s", short(id), after))
			return cls
		}
		return "err"
	case "present":
		if err != nil {
			if faulted {
				return "err"
			}
			e.violate("store:Retrieve:error:present", fmt.Sprintf("Retrieve(%q) of a stored, undamaged entry failed without any fault: %v %s", short(id), err, after))
			return "err"
		}
		if !proto.Equal(doc, m.doc) {
			cls := "wrong-doc"
			if isEmptyDoc(doc) {
				cls = "empty-doc"
			} else {
				for oid, om := range e.model {
					if oid != id && om.doc != nil && proto.Equal(doc, om.doc) {
						cls = "other-ids-doc"
					}
				}
			}
			e.violate("store:Retrieve:"+cls+":present", fmt.Sprintf("Retrieve(%q) returned a document that differs from the one stored (%s) %s", short(id), cls, after))
			return cls
		}
		// the caller owns what it got: changing it must not change what the store returns next time
		if doc.Metadata != nil {
			doc.Metadata.Name += "-changed-by-caller"
			doc.Metadata.Id = "changed-by-caller"
		}
		doc.NodeList = nil
		return "ok"
	case "after-failed-store":
		if err != nil {
			return "err"
		}
		for _, c := range m.maybe {
			if c != nil && proto.Equal(doc, c) {
				return "ok-one-of"
			}
		}
		if docID(doc) == "" {
			e.violate("store:Retrieve:empty-doc:after-failed-store", fmt.Sprintf("after a store that a fault made fail, Retrieve(%q) returned a document without identifier and no error %s", short(id), after))
			return "empty-doc"
		}
		return "partial"
	default: // damaged
		if err != nil {
			return "err"
		}
		if m.damaged == "trunc0" || m.damaged == "chmod000" || m.damaged == "isdir" {
			cls := "doc-without-error"
			if isEmptyDoc(doc) {
				cls = "empty-doc"
			}
			e.violate("store:Retrieve:"+cls+":"+state, fmt.Sprintf("Retrieve(%q) of an unreadable entry (%s) returned a document and no error %s", short(id), m.damaged, after))
			return cls
		}
		return "decoded-damaged"
	}
}

func short(s string) string {
	if len(s) > 40 {
		return s[:20] + fmt.Sprintf("...(%d bytes)", len(s))
	}
	return s
}

func first(s string) string {
	if i := strings.IndexByte(s, '\n'); i >= 0 {
		s = s[:i]
	}
	if len(s) > 200 {
		s = s[:200]
	}
	return s
}

// confinement: every path modified so far lies under the configured directory
// (or is one of its ancestors, created as a directory), and nothing else changed.
func (e *env) checkConfinement(after string) {
	root := strings.TrimSuffix(absClean(e.disk, e.sp.Path), "/")
	root2 := ""
	if e.sp.Path2 != "" {
		root2 = strings.TrimSuffix(absClean(e.disk, e.sp.Path2), "/")
	}
	for _, p := range e.disk.Journal {
		if p == root || strings.HasPrefix(p, root+"/") {
			continue
		}
		if root2 != "" && (p == root2 || strings.HasPrefix(p, root2+"/")) {
			continue
		}
		if strings.HasPrefix(root, p+"/") {
			// an ancestor: must be a directory
			if _, _, isDir, ok := e.disk.Lookup(p); ok && isDir {
				continue
			}
		}
		e.violate("store:confinement:outside-path", fmt.Sprintf("path %q was created or modified; it is outside the configured directory %q %s", p, root, after))
		return
	}
	// decoys unchanged
	for _, be := range e.base {
		if be.Path == root || strings.HasPrefix(be.Path, root+"/") || be.Dir {
			continue
		}
		if root2 != "" && strings.HasPrefix(be.Path, root2+"/") {
			continue
		}
		data, _, _, ok := e.disk.Lookup(be.Path)
		if !ok || gen.Hash64(string(data)) != gen.Hash64(decoyOr(be, e)) {
			e.violate("store:confinement:outside-file-changed", fmt.Sprintf("file %q outside the configured directory was changed or removed %s", be.Path, after))
			return
		}
	}
}

func decoyOr(be simos.TreeEntry, e *env) string {
	if be.Path == "/data/afile" {
		return "i am a file"
	}
	return decoyContent
}

func absClean(d *simos.Disk, p string) string {
	if !strings.HasPrefix(p, "/") {
		p = d.Cwd + "/" + p
	}
	parts := []string{}
	for _, s := range strings.Split(p, "/") {
		switch s {
		case "", ".":
		case "..":
			if len(parts) > 0 {
				parts = parts[:len(parts)-1]
			}
		default:
			parts = append(parts, s)
		}
	}
	return "/" + strings.Join(parts, "/")
}

func execC19(sc *core.Scenario) *core.Result {
	res := &core.Result{Faults: map[string]int{}, Probes: map[string]int{}}
	sp, err := decodeSpec(sc)
	if err != nil {
		res.Harness = err.Error()
		return res
	}
	e := &env{sp: sp, res: res, model: map[string]*entry{}, models: map[string]map[string]*entry{}, curPath: sp.Path}
	e.models[sp.Path] = e.model
	for _, d := range sp.Docs {
		e.docs = append(e.docs, docFrom(d))
	}
	if sp.PadTo > 0 && sp.PadDoc < len(e.docs) && sp.PadID < len(sp.IDs) {
		if d := e.docs[sp.PadDoc]; d.Metadata != nil {
			keep := d.Metadata.Id
			d.Metadata.Id = sp.IDs[sp.PadID]
			target := int(sp.PadTo)
			for tries := 0; tries < 8 && proto.Size(d) != target; tries++ {
				if diff := target - proto.Size(d); diff > 0 {
					d.Metadata.Comment += strings.Repeat("p", diff)
				} else if -diff <= len(d.Metadata.Comment) {
					d.Metadata.Comment = d.Metadata.Comment[:len(d.Metadata.Comment)+diff]
				} else {
					break
				}
			}
			if proto.Size(d) == target {
				res.Probes["entry of exactly a size the storage code names (+-1)"]++
			}
			d.Metadata.Id = keep
		}
	}
	e.disk = newDisk(sp)
	e.disk.WriteSplit = sp.WriteSplit
	e.disk.ReadChunk = sp.ReadChunk
	e.base = e.disk.Tree()
	simos.Mount(e.disk)
	e.fs = &storage.FileSystem{Options: storage.FileSystemOptions{Path: sp.Path}}
	verifsim.ClockSet(1700000000 * 1000000000)

	outcomes := make([]string, len(sp.Steps))
	body := func(*verifsim.Task) {
		for i, st := range sp.Steps {
			verifsim.OpBegin()
			verifsim.SetStepCap(40000000) // per step: a retry loop under a persisting fault must end
			outcomes[i] = e.step(i, st)
			verifsim.SetStepCap(400000000)
			verifsim.OpEnd()
			after := fmt.Sprintf("(after step %d: %s)", i, st.K)
			e.checkAll(after)
			e.checkConfinement(after)
			res.States = append(res.States, e.stateHash())
		}
		e.recovery()
	}
	sr := verifsim.Run(sc.Sched, []func(*verifsim.Task){body})
	res.Sched = sr
	res.Ops = len(sp.Steps)
	if sr.Hang {
		res.Violate("store:hang", "step budget exceeded: a store or retrieve does not return")
	}
	for k, v := range e.disk.Fired {
		res.Faults[k] += v
	}
	res.Outcomes = outcomes
	h := sr.LogHash
	for _, o := range outcomes {
		h = h*1099511628211 ^ core.HashStr(o)
	}
	res.LogHash = fmt.Sprintf("%016x", h)
	nt := 0
	for k, v := range res.Faults {
		if k != "trunc-existing" && k != "rename-over-existing" {
			nt += v
		}
	}
	for _, v := range res.Probes {
		nt += v
	}
	res.Nontrivial = nt > 0
	res.Key = fmt.Sprintf("%016x", core.HashStr(string(sc.Spec)))
	if sc.Run%97 == 0 {
		var ids []string
		for _, id := range sp.IDs {
			ids = append(ids, short(id))
		}
		res.Sample = map[string]any{"run": sc.Run, "uid": sp.UID, "dir_state": sp.DirState, "path": sp.Path, "ids": ids, "steps": sp.Steps, "outcomes": outcomes, "faults_fired": res.Faults}
	}
	return res
}

func (e *env) stateHash() string {
	var sb strings.Builder
	for _, id := range sortedKeys(e.model) {
		m := e.model[id]
		fmt.Fprintf(&sb, "%s=%s/%v/%s;", gen.HashHex(id), hashDoc(m.doc), m.uncertain, m.damaged)
	}
	return gen.HashHex(sb.String())
}

func (e *env) step(i int, st Step) string {
	id := e.sp.IDs[st.ID%len(e.sp.IDs)]
	ev0 := e.disk.NEvents
	e.disk.Faults = nil
	if st.Fault != nil {
		e.disk.Faults = []simos.Fault{{Event: ev0 + st.Fault.K, Kind: st.Fault.Kind, Arg: st.Fault.Arg, Sticky: st.Fault.Sticky}}
	}
	firedBefore := totalFired(e.disk)
	defer func() { e.disk.Faults = nil }()
	switch st.K {
	case "Store":
		doc := proto.Clone(e.docs[st.D%len(e.docs)]).(*sbom.Document)
		doc.Metadata.Id = id
		if st.NoID {
			if i%2 == 0 {
				doc.Metadata.Id = ""
			} else {
				doc.Metadata = nil
			}
			id = ""
		}
		j0 := len(e.disk.Journal)
		arg := doc
		doc = proto.Clone(arg).(*sbom.Document) // the model keeps its own copy of what was handed to Store
		err, abort, msg := e.store(arg, st.NoClobber, st.Via)
		if abort == "" && !proto.Equal(arg, doc) {
			e.violate("store:Store:argument-modified", fmt.Sprintf("Store(%q) changed the document it was given", short(id)))
		}
		faulted := totalFired(e.disk) > firedBefore
		if abort != "" {
			e.violate("store:Store:"+abort, fmt.Sprintf("Store(%q) ended in %s (%s)", short(id), abort, first(msg)))
			return abort
		}
		if id == "" {
			if err == nil {
				e.violate("store:Store:accepted-without-id", "Store of a document without identifier returned nil")
				return "ok-noid"
			}
			return "err-noid"
		}
		if isHostile(id) {
			e.res.Probes["hostile identifier stored"]++
		}
		m := e.model[id]
		if m == nil {
			m = &entry{}
			e.model[id] = m
		}
		exists := m.doc != nil || m.uncertain || m.damaged != ""
		if st.NoClobber && exists {
			e.res.Probes["no-clobber met an existing entry"]++
			// whatever is returned, the entry must be neither replaced nor damaged: model unchanged
			if err == nil {
				if m.uncertain {
					m.maybe = append(m.maybe, doc) // the half-written entry may not have existed for the store
				}
				return "ok-noclobber-kept"
			}
			return "err-noclobber"
		}
		if err == nil {
			e.dirGone = false
			m.doc, m.uncertain, m.maybe, m.damaged, m.mode000, m.isdir = doc, false, nil, "", false, false
			m.files = nil
			seen := map[string]bool{}
			for _, p := range e.disk.Journal[j0:] {
				if _, _, isDir, ok := e.disk.Lookup(p); ok && !isDir && !seen[p] {
					seen[p] = true
					m.files = append(m.files, p)
				}
			}
			if e.sp.DirState == "missing" || e.sp.DirState == "missing-deep" {
				e.res.Probes["store into a missing directory succeeded"]++
			}
			return "ok"
		}
		// the store failed
		if !faulted {
			switch {
			case e.dirGone:
				e.violate("store:Store:failed:missing-dir:removed-later", fmt.Sprintf("the data directory %q was removed after earlier stores; Store(%q) failed without any fault instead of creating it again: %v", e.curPath, short(id), err))
			case m.mode000:
				return "err-entry-unwritable"
			case m.isdir:
				return "err-entry-is-directory" // replacing a directory by a file is refused by the file system: a reported error, entry unchanged
			case e.sp.DirState == "file":
				return "err-path-is-file"
			case e.sp.DirState == "missing" || e.sp.DirState == "missing-deep":
				who := "root"
				if e.sp.UID != 0 {
					who = "unprivileged"
				}
				e.violate("store:Store:failed:missing-dir:"+who, fmt.Sprintf("Store(%q) into the missing directory %q failed without any fault (uid %d): %v; a missing directory must be created and then be usable", short(id), e.sp.Path, e.sp.UID, err))
			default:
				e.violate("store:Store:failed:healthy", fmt.Sprintf("Store(%q) failed on a healthy disk without any fault: %v", short(id), err))
			}
		} else {
			m.hit = true
			e.res.Probes["store failed under an injected fault"]++
		}
		// after a failed store the entry may hold the old or the new document
		if exists || faulted {
			if !m.uncertain {
				m.maybe = []*sbom.Document{m.doc}
			}
			m.maybe = append(m.maybe, doc)
			m.uncertain = true
			m.doc = nil
		}
		return "err"
	case "Retrieve":
		if id == "" {
			_, err, abort, _ := e.retrieve("", st.Via)
			if abort != "" {
				e.violate("store:Retrieve:"+abort+":empty-id", "Retrieve(\"\") ended in "+abort)
				return abort
			}
			if err == nil {
				e.violate("store:Retrieve:doc-without-error:empty-id", "Retrieve(\"\") returned no error")
			}
			return "err"
		}
		out := e.checkOneFaulty(id, st.Via, fmt.Sprintf("(step %d)", i), firedBefore)
		return out
	case "Repoint":
		// the same FileSystem value is pointed at another directory (and back): from now on that
		// directory is "the configured directory"
		next := e.sp.Path2
		if e.curPath == e.sp.Path2 {
			next = e.sp.Path
		}
		e.fs.Options.Path = next
		e.curPath = next
		if e.models[next] == nil {
			e.models[next] = map[string]*entry{}
		}
		e.model = e.models[next]
		e.res.Probes["storage re-pointed at another directory"]++
		return "repointed"
	case "RmDir":
		if !e.disk.RemoveTree(e.curPath) {
			return "nothing-to-remove"
		}
		for _, m := range e.model {
			m.doc, m.uncertain, m.maybe, m.damaged, m.mode000, m.isdir, m.files = nil, false, nil, "", false, false, nil
		}
		e.dirGone = true
		e.res.Probes["data directory removed between calls"]++
		return "removed"
	case "Damage":
		m := e.model[id]
		if m == nil || m.doc == nil || len(m.files) == 0 {
			return "nothing-to-damage"
		}
		if st.Dmg == "chmod000" && e.sp.UID == 0 {
			return "chmod-irrelevant-for-root"
		}
		for _, p := range m.files {
			data, _, _, ok := e.disk.Lookup(p)
			if !ok {
				continue
			}
			switch st.Dmg {
			case "trunc0":
				e.disk.SetData(p, nil)
			case "truncmid":
				e.disk.SetData(p, data[:len(data)/2])
			case "truncsmall":
				k := 1 + st.D%48
				if k > len(data) {
					k = len(data)
				}
				e.disk.SetData(p, data[:k])
			case "garbagesmall":
				g := make([]byte, 1+st.D%40)
				for i := range g {
					g[i] = byte(st.D>>uint(i%8)) ^ byte(i*37)
				}
				e.disk.SetData(p, g)
			case "flipbyte":
				g := append([]byte{}, data...)
				if len(g) > 0 {
					g[st.D%len(g)] ^= byte(1 << uint(st.D%8))
				}
				e.disk.SetData(p, g)
			case "garbage":
				g := make([]byte, len(data))
				for i := range g {
					g[i] = byte(0xff - i%7)
				}
				e.disk.SetData(p, g)
			case "chmod000":
				e.disk.SetMode(p, 0)
				m.mode000 = true
			case "isdir":
				if e.disk.ReplaceWithDir(p, e.sp.UID) {
					m.isdir = true
				}
			}
		}
		m.damaged = st.Dmg
		if m.mode000 {
			m.damaged = "chmod000" // stays unreadable whatever else happens to the bytes
		}
		if m.isdir {
			m.damaged = "isdir" // a directory sits where the entry was
		}
		e.res.Probes["at-rest damage: "+st.Dmg]++
		return "damaged"
	}
	return "?"
}

func totalFired(d *simos.Disk) int {
	n := 0
	for k, v := range d.Fired {
		if k != "trunc-existing" && k != "rename-over-existing" && k != "short-write" && k != "sticky-repeat" {
			n += v
		}
	}
	return n
}

func (e *env) checkOneFaulty(id, via, after string, firedBefore int) string {
	// whether an injected fault fired is known only after the call: checkOne measures it itself
	e.firedBefore = firedBefore
	out := e.checkOne(id, via, after, true)
	e.firedBefore = -1
	return out
}

func isHostile(id string) bool {
	return strings.ContainsAny(id, "/\\\x00\n.*~") || len(id) > 1000
}

// recovery: once faults have stopped, a plain store of every identifier that a
// fault hit must succeed and be retrievable.
func (e *env) recovery() {
	if e.sp.DirState == "file" {
		return
	}
	e.disk.Faults = nil
	for _, id := range sortedKeys(e.model) {
		m := e.model[id]
		if !m.hit && m.damaged == "" {
			continue
		}
		if m.mode000 || m.isdir {
			continue // an entry the user made unreadable/unwritable (or a directory) is the user's to repair
		}
		doc := proto.Clone(e.docs[0]).(*sbom.Document)
		doc.Metadata.Id = id
		err, abort, msg := e.store(doc, false, "fs")
		if abort != "" {
			e.violate("store:recovery:"+abort, fmt.Sprintf("recovery Store(%q) ended in %s (%s)", short(id), abort, first(msg)))
			continue
		}
		if err != nil {
			if e.sp.DirState == "missing" || e.sp.DirState == "missing-deep" {
				continue // reported by the main history if the directory cannot be created
			}
			e.violate("store:recovery:store-failed", fmt.Sprintf("after faults stopped, a plain Store(%q) still fails: %v", short(id), err))
			continue
		}
		m.doc, m.uncertain, m.maybe, m.damaged = doc, false, nil, ""
		e.res.Probes["recovery store after a failed or damaged one"]++
		e.checkOne(id, "fs", "(recovery suffix)", false)
	}
}
