// Package disk is the engine for the storage properties: C19 (histories of
// store/retrieve under injected I/O faults and at-rest damage) and C20 (every
// crash slot of a store). The file system is the simulated disk of simos.
package disk

import (
	"encoding/base64"
	"encoding/json"
	"fmt"
	"math/rand"
	"sort"
	"strings"

	"github.com/protobom/protobom/pkg/reader"
	"github.com/protobom/protobom/pkg/sbom"
	"github.com/protobom/protobom/pkg/storage"
	"github.com/protobom/protobom/pkg/verifsim/simos"
	"github.com/protobom/protobom/pkg/writer"
	"google.golang.org/protobuf/proto"

	"verif/internal/core"
	"verif/internal/gen"
)

type Engine struct{}

func (Engine) Name() string { return "disk" }

func init() { core.Register(Engine{}, "C19", "C20") }

type FaultSpec struct {
	K      int    `json:"k"` // k-th syscall of the step
	Kind   string `json:"kind"`
	Arg    int    `json:"arg,omitempty"`
	Sticky bool   `json:"sticky,omitempty"`
}

type Step struct {
	K         string     `json:"k"` // Store Retrieve Damage
	D         int        `json:"d,omitempty"`
	ID        int        `json:"id,omitempty"` // index into IDs
	NoClobber bool       `json:"noclobber,omitempty"`
	Via       string     `json:"via,omitempty"` // fs | rw
	Fault     *FaultSpec `json:"fault,omitempty"`
	Dmg       string     `json:"dmg,omitempty"` // trunc0 truncmid garbage chmod000
	NoID      bool       `json:"noid,omitempty"`
}

type Spec struct {
	UID        int      `json:"uid"`
	DirState   string   `json:"dir_state"` // exists missing missing-deep file
	Path       string   `json:"path"`
	PadTo      int64  `json:"pad_to,omitempty"`  // at execution, document PadDoc is padded so that with identifier PadID it encodes to exactly this size
	PadDoc     int    `json:"pad_doc,omitempty"`
	PadID      int    `json:"pad_id,omitempty"`
	Aligned    int    `json:"aligned,omitempty"` // some (document, identifier) pair encodes to an exact multiple of this size
	Path2      string   `json:"path2,omitempty"` // a second directory the same FileSystem value may be re-pointed at
	Cwd        string   `json:"cwd,omitempty"`
	IDs        []string `json:"ids"`
	Docs       []string `json:"docs"` // base64 protobuf; Metadata.Id is set per step
	Steps      []Step   `json:"steps"`
	WriteSplit []int    `json:"write_split,omitempty"`
	ReadChunk  int      `json:"read_chunk,omitempty"`
	Faulty     bool     `json:"faulty"`
	// C20
	Pre       []Step `json:"pre,omitempty"`
	TornLimit int    `json:"torn_limit,omitempty"`
	SlotLo    int    `json:"slot_lo,omitempty"`
	SlotHi    int    `json:"slot_hi,omitempty"`
	NSlots    int    `json:"n_slots,omitempty"`
}

func decodeSpec(sc *core.Scenario) (*Spec, error) {
	var sp Spec
	if err := json.Unmarshal(sc.Spec, &sp); err != nil {
		return nil, err
	}
	return &sp, nil
}

func encodeSpec(sp *Spec) json.RawMessage {
	b, _ := json.Marshal(sp)
	return b
}

func b64(b []byte) string { return base64.StdEncoding.EncodeToString(b) }

func docFrom(s string) *sbom.Document {
	b, _ := base64.StdEncoding.DecodeString(s)
	d := &sbom.Document{}
	if err := proto.Unmarshal(b, d); err != nil {
		panic("disk: bad document in scenario")
	}
	return d
}

var hostileIDs = []string{
	"doc1", "doc1 ", "Doc1", "doc2", "../x", "../../etc/passwd", "/abs/path", "a/b", ".", "..", "id\x00nul", "line\nbreak",
	"ünï-名前", "caf\u00e9", "cafe\u0301", "https://example.com/sbom#DOC", "urn:uuid:3e671687-395b-41f5-a30f-a58921a69b79", "%2e%2e%2f", "con", "a\\b", "*", "~", "-rf",
}

func longID(r *rand.Rand) string {
	return strings.Repeat("L", 65536) + fmt.Sprint(r.Intn(10))
}

func genDoc(r *rand.Rand, tag string, maxNodes int) *sbom.Document {
	g := gen.New(r.Int63(), gen.Profile{MaxNodes: maxNodes, Tag: tag})
	return g.Document("placeholder")
}

// ---- environment of one run ----

type env struct {
	sp          *Spec
	disk        *simos.Disk
	docs        []*sbom.Document
	fs          *storage.FileSystem
	res         *core.Result
	model       map[string]*entry            // by identifier (entries of the directory currently configured)
	models      map[string]map[string]*entry // per configured directory
	curPath     string
	dirGone     bool // the data directory was removed and no store has succeeded since
	base        []simos.TreeEntry // tree before the history (outside-path comparison)
	faults      map[string]int
	firedBefore int
}

type entry struct {
	doc       *sbom.Document   // certain content (nil: absent)
	maybe     []*sbom.Document // after a failed store: old or new are both acceptable
	uncertain bool
	isdir     bool     // a directory was put where the entry was
	damaged   string   // at-rest damage applied and not yet overwritten
	files     []string // paths the last successful store touched
	mode000   bool     // entry file was made mode 000 and not yet replaced
	hit       bool     // a fault hit a store of this id (recovery suffix applies)
}

const decoyContent = "decoy: must never change"

func newDisk(sp *Spec) *simos.Disk {
	d := simos.NewDisk(sp.UID)
	d.PutDir("/data", 0o755, sp.UID)
	d.PutDir("/work", 0o755, sp.UID)
	d.PutDir("/tmp", 0o777, 0)
	d.PutDir("/home/sim", 0o755, sp.UID)
	d.Put("/etc/passwd", []byte(decoyContent), 0o666, sp.UID)
	d.Put("/data/other/secret.protobom", []byte(decoyContent), 0o666, sp.UID)
	d.Put("/work/x", []byte(decoyContent), 0o666, sp.UID)
	d.Put("/x", []byte(decoyContent), 0o666, sp.UID)
	d.Put("/abs/path", []byte(decoyContent), 0o666, sp.UID)
	d.Cwd = "/work"
	if sp.Cwd != "" {
		d.Cwd = sp.Cwd
	}
	switch sp.DirState {
	case "exists":
		d.PutDir(absOf(d, sp.Path), 0o755, sp.UID)
	case "file":
		d.Put(absOf(d, sp.Path), []byte("i am a file"), 0o644, sp.UID)
	case "missing", "missing-deep":
		// parents of "missing" exist; "missing-deep" has a path with missing parents
	}
	if sp.Path2 != "" {
		d.PutDir(absOf(d, sp.Path2), 0o755, sp.UID)
	}
	return d
}

func absOf(d *simos.Disk, p string) string {
	if strings.HasPrefix(p, "/") {
		return p
	}
	return d.Cwd + "/" + p
}

func classifyPanic(p any) (string, string) {
	switch v := p.(type) {
	case core.ExitSentinel:
		return "process-exit", fmt.Sprintf("exit(%d)", v.Code)
	case error:
		return "panic", v.Error()
	}
	return "panic", fmt.Sprint(p)
}

// call runs f, turning panics and process exits into an outcome class.
func call(f func()) (abort, msg string) {
	defer func() {
		if p := recover(); p != nil {
			abort, msg = classifyPanic(p)
		}
	}()
	f()
	return "", ""
}

func (e *env) store(doc *sbom.Document, noClobber bool, via string) (err error, abort, msg string) {
	abort, msg = call(func() {
		switch {
		case via == "rw":
			w := writer.New(writer.WithStoreRetriever(e.fs))
			err = w.StoreWithOptions(doc, &writer.Options{StoreOptions: &storage.StoreOptions{NoClobber: noClobber}})
		case via == "rwb": // through the writer, with backend options set as well
			w := writer.New(writer.WithStoreRetriever(e.fs))
			err = w.StoreWithOptions(doc, &writer.Options{StoreOptions: &storage.StoreOptions{NoClobber: noClobber, BackendOptions: map[string]string{"k": "v"}}})
		case via == "fsnil" && !noClobber:
			err = e.fs.Store(doc, nil) // nil options are documented as supported
		case via == "fsnew": // another FileSystem value on the same directory (another handle, another process)
			other := &storage.FileSystem{Options: storage.FileSystemOptions{Path: e.fs.Options.Path}}
			err = other.Store(doc, &storage.StoreOptions{NoClobber: noClobber})
		default:
			err = e.fs.Store(doc, &storage.StoreOptions{NoClobber: noClobber})
		}
	})
	return
}

func (e *env) retrieve(id string, via string) (doc *sbom.Document, err error, abort, msg string) {
	abort, msg = call(func() {
		if via == "rw" {
			r := reader.New(reader.WithStoreRetriever(e.fs))
			doc, err = r.Retrieve(id)
		} else if via == "fsnew" {
			other := &storage.FileSystem{Options: storage.FileSystemOptions{Path: e.fs.Options.Path}}
			doc, err = other.Retrieve(id, &storage.RetrieveOptions{})
		} else {
			doc, err = e.fs.Retrieve(id, &storage.RetrieveOptions{})
		}
	})
	return
}

func docID(d *sbom.Document) string {
	if d == nil || d.Metadata == nil {
		return ""
	}
	return d.Metadata.Id
}

func isEmptyDoc(d *sbom.Document) bool {
	return d != nil && docID(d) == "" && (d.NodeList == nil || len(d.NodeList.Nodes) == 0)
}

func hashDoc(d *sbom.Document) string {
	if d == nil {
		return "nil"
	}
	return gen.HashHex(gen.Dump(d))
}

func sortedKeys[V any](m map[string]V) []string {
	ks := make([]string, 0, len(m))
	for k := range m {
		ks = append(ks, k)
	}
	sort.Strings(ks)
	return ks
}

func (Engine) PerProcess(prop string) int {
	if prop == "C20" {
		return 8
	}
	return 40
}

func (Engine) Runs(prop, tier string) int {
	if prop == "C20" {
		if tier == "thorough" {
			return 3000 // every scenario executes hundreds to thousands of crash slots, each followed by three restarts
		}
		return 240
	}
	if tier == "thorough" {
		return 75000
	}
	return 15000
}

func (e Engine) Generate(prop string, verifSeed int64, tier string, idx int) *core.Scenario {
	if prop == "C20" {
		return genC20(verifSeed, tier, idx)
	}
	return genC19(verifSeed, tier, idx)
}

var prepared bool

func (e Engine) Execute(sc *core.Scenario) *core.Result {
	if !prepared {
		prepared = true
		core.InstallExitHooks()
	}
	defer simos.Mount(nil)
	switch sc.Property {
	case "C19":
		return execC19(sc)
	case "C20":
		return execC20(sc)
	}
	return &core.Result{Harness: "disk: no executor for " + sc.Property}
}

func (Engine) Shrinks(sc *core.Scenario) []*core.Scenario {
	sp, err := decodeSpec(sc)
	if err != nil {
		return nil
	}
	var out []*core.Scenario
	mk := func(n *Spec) {
		c := *sc
		c.Spec = encodeSpec(n)
		out = append(out, &c)
	}
	if sc.Property == "C20" {
		// restrict the crash-slot enumeration (bisection); slot numbering is a function of the scenario,
		// so the range is dropped again whenever the scenario itself is changed below
		lo, hi := sp.SlotLo, sp.SlotHi
		if hi == 0 {
			lo, hi = 0, 4096
		}
		if hi-lo > 1 {
			mid := (lo + hi) / 2
			a, b := *sp, *sp
			a.SlotLo, a.SlotHi = lo, mid
			b.SlotLo, b.SlotHi = mid, hi
			mk(&a)
			mk(&b)
		}
		if sp.SlotHi > 0 {
			return out
		}
	}
	dropSteps := func(steps []Step, set func(n *Spec, s []Step)) {
		if len(steps) > 3 {
			n := *sp
			set(&n, append([]Step{}, steps[len(steps)/2:]...))
			mk(&n)
			n2 := *sp
			set(&n2, append([]Step{}, steps[:len(steps)/2]...))
			mk(&n2)
		}
		for i := range steps {
			n := *sp
			set(&n, append(append([]Step{}, steps[:i]...), steps[i+1:]...))
			mk(&n)
		}
		for i := range steps {
			if steps[i].Fault != nil {
				n := *sp
				ns := append([]Step{}, steps...)
				ns[i].Fault = nil
				set(&n, ns)
				mk(&n)
			}
		}
	}
	dropSteps(sp.Steps, func(n *Spec, s []Step) { n.Steps = s })
	if len(sp.Pre) > 0 {
		dropSteps(sp.Pre, func(n *Spec, s []Step) { n.Pre = s })
	}
	if len(sp.WriteSplit) > 0 {
		n := *sp
		n.WriteSplit = nil
		mk(&n)
	}
	if sp.ReadChunk > 0 {
		n := *sp
		n.ReadChunk = 0
		mk(&n)
	}
	// smaller documents
	for i, d := range sp.Docs {
		doc := docFrom(d)
		if doc.NodeList != nil && len(doc.NodeList.Nodes) > 0 {
			c := proto.Clone(doc).(*sbom.Document)
			c.NodeList.Nodes = c.NodeList.Nodes[:len(c.NodeList.Nodes)/2]
			c.NodeList.Edges = nil
			b, _ := proto.MarshalOptions{Deterministic: true}.Marshal(c)
			n := *sp
			n.Docs = append([]string{}, sp.Docs...)
			n.Docs[i] = b64(b)
			mk(&n)
		}
	}
	return out
}

func (Engine) Describe(prop string) core.Description {
	d := core.Description{
		Level:    "exploration",
		RealCode: []string{"pkg/storage, pkg/reader, pkg/writer, pkg/sbom (instrumented at build time)", "protobuf-go (marshal/unmarshal)", "logrus"},
		Simulated: []string{"package os / the file system (in-memory POSIX-like disk with permission model; every call decomposed into system calls, each a fault slot and a crash slot)",
			"sigs.k8s.io/release-utils util.Exists (redirected to the simulated disk)", "process exit (logrus ExitFunc)", "process death (task parked for ever at the crash point, disk frozen, fresh FileSystem restarted on it)"},
		Stubs: []string{},
		Assumptions: []string{
			"crash model is process death: completed system calls persist, the call in flight is not applied, fully applied or (write) applied up to a byte prefix; power loss / fsync ordering is not modelled because the property does not promise it",
			"the simulated disk follows POSIX semantics for the calls it implements (open/read/write/close/stat/mkdir/rename/unlink/link/chmod/truncate); symlinks are not supported",
			"restart inside the worker process is faithful because pkg/storage keeps no package-level mutable state (checked by simgen on every build)",
		},
		NoSimTime: "not applicable: the store has no timers; logical steps (system calls) are reported instead",
	}
	if prop == "C20" {
		d.Level = "fault_enumeration"
		d.Rule = "seeded scenarios (pre-state: entry absent / present with an older document / other identifiers present / directory missing; one store with or without no-clobber; per-run write splitting); for each scenario EVERY crash slot is executed: before and after each system call of the store and every byte prefix of each write (all prefixes when the write is <= torn_limit bytes, otherwise protobuf field boundaries +-1, first/last 16 bytes and 64 seeded offsets); a case is one (scenario, crash slot); non-trivial when the slot lies after the first system call that modifies the disk"
	} else {
		d.Rule = "seeded histories of 3-25 store/retrieve/damage steps over 2-6 identifiers from a hostile pool (dot-dot, absolute, separators, NUL, newline, unicode, 64 KiB, near-collisions, empty) with generated documents, per-run disk configuration (uid, directory exists / missing / missing with missing parents / is a regular file), in fault-free and fault-injecting configurations (EACCES EIO ENOSPC EMFILE EROFS on the k-th system call of a step, short writes, chunked reads, at-rest truncation/garbage/chmod 000); reference model map[id]document checked after every step for every identifier; a case is distinct by the hash of its history and non-trivial when a fault fired, damage was applied, no-clobber met an existing entry or a hostile identifier was stored"
	}
	return d
}
