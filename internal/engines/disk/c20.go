package disk

import (
	"os"
	"time"
	"fmt"
	"math/rand"
	"sort"

	"github.com/protobom/protobom/pkg/sbom"
	"github.com/protobom/protobom/pkg/storage"
	verifsim "github.com/protobom/protobom/pkg/verifsim"
	"github.com/protobom/protobom/pkg/verifsim/simos"
	"google.golang.org/protobuf/encoding/protowire"
	"google.golang.org/protobuf/proto"

	"verif/internal/core"
)

// C20: scenario = pre-state (sequence of successful stores) + one store in
// flight. Every crash slot of the store in flight is executed.

func genC20(verifSeed int64, tier string, idx int) *core.Scenario {
	seed := core.SplitMix(uint64(verifSeed), uint64(idx)*2654435761+20)
	r := rand.New(rand.NewSource(int64(seed)))
	sp := &Spec{TornLimit: 512}
	if tier == "thorough" {
		sp.TornLimit = 1 << 20 // every byte prefix of every write
	}
	sp.UID = []int{0, 1000}[r.Intn(2)]
	sp.DirState = []string{"exists", "exists", "exists", "missing"}[r.Intn(4)]
	if sp.DirState == "exists" {
		sp.Path = []string{"/data/store", "store-rel"}[r.Intn(2)]
	} else {
		sp.Path = "/data/new"
	}
	sp.IDs = []string{"target-" + hostileIDs[r.Intn(len(hostileIDs))], "other-1", "other-2"}
	maxNodes := 1 + r.Intn(3)
	if r.Intn(4) == 0 {
		maxNodes = 12 // medium: a few KiB encoded
	}
	huge := r.Intn(40) == 0
	shrinkNew := r.Intn(2) == 0 // the new document is shorter than what earlier (possibly killed) stores wrote
	for i := 0; i < 3; i++ {
		mn := maxNodes
		if shrinkNew && i == 0 {
			mn = r.Intn(2)
		}
		if shrinkNew && i > 0 {
			mn = maxNodes*2 + 2
		}
		d := genDoc(r, fmt.Sprintf("d%d", i), mn)
		if huge && i < 2 {
			// beyond any plausible "large document" threshold: tens of thousands of (minimal) nodes
			d = genDoc(r, fmt.Sprintf("d%d", i), 1)
			n := []int{70000, 66000}[i] + r.Intn(3000)
			for k := 0; k < n; k++ {
				d.NodeList.Nodes = append(d.NodeList.Nodes, &sbom.Node{Id: fmt.Sprintf("h%d-%d", i, k), Name: fmt.Sprintf("d%d", i)})
			}
		}
		b, err := proto.MarshalOptions{Deterministic: true}.Marshal(d)
		if err != nil {
			panic(err)
		}
		sp.Docs = append(sp.Docs, b64(b))
	}
	// pre-state
	if sp.DirState == "exists" {
		if r.Intn(3) != 0 { // overwrite case: an older document is present
			sp.Pre = append(sp.Pre, Step{K: "Store", D: 1, ID: 0})
		}
		for i := 1; i <= 2; i++ {
			if r.Intn(2) == 0 {
				sp.Pre = append(sp.Pre, Step{K: "Store", D: 2, ID: i})
			}
		}
	}
	if sp.DirState == "exists" && r.Intn(2) == 0 {
		// leftovers: an earlier store of the same identifier died at some point
		sp.Pre = append(sp.Pre, Step{K: "CrashedStore", D: 2, ID: 0, Dmg: fmt.Sprint(r.Intn(1 << 20)), NoClobber: r.Intn(2) == 0})
	}
	if sp.DirState == "exists" && r.Intn(4) == 0 {
		// ... or an earlier store of ANOTHER identifier died (its leftovers must not matter to anyone else)
		sp.Pre = append(sp.Pre, Step{K: "CrashedStore", D: 1, ID: 1 + r.Intn(2), Dmg: fmt.Sprint(r.Intn(1 << 20))})
	}
	sp.Steps = []Step{{K: "Store", D: 0, ID: 0, NoClobber: r.Intn(4) == 0, Via: []string{"fs", "rw"}[r.Intn(2)]}}
	if r.Intn(3) == 0 && !huge {
		// the store in flight also meets an I/O error (on its k-th system call, once or persisting): whatever path it
		// takes then is crashed at every point like any other
		k := r.Intn(4) // mostly early: the calls that decide which path the store takes
		if r.Intn(4) == 0 {
			k = r.Intn(10)
		}
		sp.Steps[0].Fault = &FaultSpec{K: k, Kind: faultKinds[r.Intn(len(faultKinds))], Sticky: r.Intn(3) == 0}
	}
	if r.Intn(2) == 0 && !huge {
		for i := 0; i < 4; i++ {
			sp.WriteSplit = append(sp.WriteSplit, []int{0, 1, 5, 33, 200}[r.Intn(5)])
		}
	}
	if huge {
		sp.TornLimit = 24 // megabytes per write: a few prefixes of each, all call boundaries
	}
	sc := &core.Scenario{V: 1, Property: "C20", Engine: "disk", VerifSeed: verifSeed, Run: idx, RunSeed: seed}
	sc.Sched = verifsim.Config{Seed: seed, Policy: "serial", MaxSteps: 2000000, MapOrder: "random"}
	sc.Spec = encodeSpec(sp)
	return sc
}

// fieldBoundaries lists offsets at which a prefix of b ends exactly on a
// top-level or second-level protobuf field boundary.
func fieldBoundaries(b []byte) []int {
	var out []int
	var walk func(base int, b []byte, depth int)
	walk = func(base int, b []byte, depth int) {
		off := 0
		for off < len(b) {
			num, typ, n := protowire.ConsumeTag(b[off:])
			if n < 0 {
				return
			}
			vlen := protowire.ConsumeFieldValue(num, typ, b[off+n:])
			if vlen < 0 {
				return
			}
			if typ == protowire.BytesType && depth < 3 {
				_, ln := protowire.ConsumeVarint(b[off+n:])
				if ln > 0 {
					walk(base+off+n+ln, b[off+n+ln:off+n+vlen], depth+1)
				}
			}
			off += n + vlen
			out = append(out, base+off)
		}
	}
	walk(0, b, 0)
	return out
}

type slot struct {
	cp   simos.CrashPoint
	desc string
}

func execC20(sc *core.Scenario) *core.Result {
	res := &core.Result{Faults: map[string]int{}, Probes: map[string]int{}}
	sp, err := decodeSpec(sc)
	if err != nil {
		res.Harness = err.Error()
		return res
	}
	var docs []*sbom.Document
	for _, d := range sp.Docs {
		docs = append(docs, docFrom(d))
	}
	verifsim.ClockSet(1700000000 * 1000000000)

	// ---- pre-state ----
	pre := newDisk(sp)
	simos.Mount(pre)
	e := &env{sp: sp, res: res, disk: pre, docs: docs, model: map[string]*entry{}}
	e.fs = &storage.FileSystem{Options: storage.FileSystemOptions{Path: sp.Path}}
	var otherAllowed map[string][]*sbom.Document // other identifiers whose own earlier store crashed: error or one of these
	var alsoAllowed []*sbom.Document // complete documents an earlier, crashed store of the target may have installed
	for _, st := range sp.Pre {
		id := sp.IDs[st.ID%len(sp.IDs)]
		doc := proto.Clone(docs[st.D%len(docs)]).(*sbom.Document)
		doc.Metadata.Id = id
		if st.K == "CrashedStore" {
			var sel int
			fmt.Sscan(st.Dmg, &sel)
			// count the system calls of this store on a scratch copy, then kill it at the selected point
			scratch := pre.Clone()
			scratch.Killer = verifsim.Kill
			simos.Mount(scratch)
			e0 := &env{sp: sp, res: res, disk: scratch, docs: docs}
			e0.fs = &storage.FileSystem{Options: storage.FileSystemOptions{Path: sp.Path}}
			verifsim.Run(sc.Sched, []func(*verifsim.Task){func(*verifsim.Task) { e0.store(proto.Clone(doc).(*sbom.Document), st.NoClobber, "fs") }})
			n := scratch.NEvents
			if n == 0 {
				n = 1
			}
			cp := &simos.CrashPoint{Event: sel % n, When: []string{"before", "after", "torn"}[(sel/n)%3], Prefix: sel % 97}
			if sel%5 < 3 {
				// more often than not the earlier store died late, between two of its last calls: that is
				// where multi-step installs (link/rename/unlink sequences) leave their in-between states
				k := 4
				if n < k {
					k = n
				}
				cp = &simos.CrashPoint{Event: n - 1 - (sel/5)%k, When: "after"}
			}
			pre.ResetPlan()
			pre.Crash, pre.Killer = cp, verifsim.Kill
			simos.Mount(pre)
			e1 := &env{sp: sp, res: res, disk: pre, docs: docs}
			e1.fs = &storage.FileSystem{Options: storage.FileSystemOptions{Path: sp.Path}}
			verifsim.Run(sc.Sched, []func(*verifsim.Task){func(*verifsim.Task) { e1.store(proto.Clone(doc).(*sbom.Document), st.NoClobber, "fs") }})
			pre.ResetPlan()
			simos.Mount(pre)
			if st.ID%len(sp.IDs) == 0 {
				alsoAllowed = append(alsoAllowed, doc)
			} else {
				if otherAllowed == nil {
					otherAllowed = map[string][]*sbom.Document{}
				}
				otherAllowed[id] = append(otherAllowed[id], doc)
				if m := e.model[id]; m != nil {
					otherAllowed[id] = append(otherAllowed[id], m.doc)
				}
				delete(e.model, id) // this identifier's own state is uncertain; it is judged leniently below
			}
			res.Probes["pre-state holds leftovers of an earlier crashed store"]++
			continue
		}
		err, abort, _ := e.store(doc, false, "fs")
		if err != nil || abort != "" {
			// the pre-state could not be built (e.g. a store into a fresh directory fails): nothing to enumerate
			res.Outcomes = []string{"pre-state store failed"}
			res.LogHash = "pre-failed"
			res.Key = fmt.Sprintf("%016x", core.HashStr(string(sc.Spec)))
			return res
		}
		e.model[id] = &entry{doc: doc}
	}
	pre.ResetPlan()
	st := sp.Steps[0]
	id := sp.IDs[st.ID%len(sp.IDs)]
	newDoc := proto.Clone(docs[st.D%len(docs)]).(*sbom.Document)
	newDoc.Metadata.Id = id
	var oldDoc *sbom.Document
	if m := e.model[id]; m != nil {
		oldDoc = m.doc
	}

	// ---- traced fault-free run: list the system calls of the store in flight ----
	runStore := func(d *simos.Disk, cp *simos.CrashPoint) (verifsim.Result, error, string) {
		d.ResetPlan()
		d.WriteSplit = sp.WriteSplit
		if st.Fault != nil {
			d.Faults = []simos.Fault{{Event: st.Fault.K, Kind: st.Fault.Kind, Arg: st.Fault.Arg, Sticky: st.Fault.Sticky}}
		}
		d.Crash = cp
		d.Killer = verifsim.Kill
		simos.Mount(d)
		env2 := &env{sp: sp, res: res, disk: d, docs: docs}
		env2.fs = &storage.FileSystem{Options: storage.FileSystemOptions{Path: sp.Path}}
		var serr error
		var abort string
		body := func(*verifsim.Task) {
			verifsim.OpBegin()
			serr, abort, _ = env2.store(proto.Clone(newDoc).(*sbom.Document), st.NoClobber, st.Via)
			verifsim.OpEnd()
		}
		sr := verifsim.Run(sc.Sched, []func(*verifsim.Task){body})
		return sr, serr, abort
	}
	traceDisk := pre.Clone()
	sr0, serr0, abort0 := runStore(traceDisk, nil)
	res.Sched = sr0
	trace := append([]simos.Event{}, traceDisk.Trace...)
	if abort0 == "" && serr0 == nil && !sr0.Hang {
		// the store that was NOT interrupted: on top of whatever earlier crashed stores left behind,
		// a store that reports success must be retrievable exactly (no tail of an older attempt mixed in)
		traceDisk.ResetPlan()
		traceDisk.Quiet = true
		simos.Mount(traceDisk)
		envT := &env{sp: sp, res: res, disk: traceDisk, docs: docs}
		envT.fs = &storage.FileSystem{Options: storage.FileSystemOptions{Path: sp.Path}}
		got, gerr, gabort, _ := envT.retrieve(id, "fs")
		keep := st.NoClobber && (oldDoc != nil || len(alsoAllowed) > 0)
		switch {
		case gabort != "":
			res.Violate("crash:none:retrieve-"+gabort, "Retrieve after an uninterrupted store ended in "+gabort)
		case keep:
			// no-clobber on an existing (or possibly existing) entry: nothing to demand of the new document
		case gerr != nil || !proto.Equal(got, newDoc):
			cls := "error"
			if gerr == nil {
				cls = "mixed-or-wrong-doc"
			}
			if len(alsoAllowed) > 0 {
				res.Violate("crash:after-earlier-crash:"+cls, fmt.Sprintf("an earlier store of %q was killed; the next store reported success but Retrieve gives %s (err=%v): what the killed store left behind leaked into the new entry", short(id), cls, gerr))
			} else {
				res.Violate("crash:none:"+cls, fmt.Sprintf("an uninterrupted store of %q reported success but Retrieve gives %s (err=%v)", short(id), cls, gerr))
			}
		}
	}
	if abort0 != "" {
		res.Violate("crash:none:store-"+abort0, "the store itself ended in "+abort0+" without any crash")
	}
	firstMod := -1
	for _, ev := range trace {
		switch ev.Call {
		case "mkdir", "write", "rename", "unlink", "rmdir", "link", "truncate":
			if firstMod < 0 && ev.Res == "ok" {
				firstMod = ev.N
			}
		case "open":
			if firstMod < 0 && ev.Res == "ok" && ev.Arg&(simos.O_CREATE|simos.O_TRUNC) != 0 {
				firstMod = ev.N
			}
		}
	}

	// ---- enumerate crash slots ----
	var slots []slot
	exhaustive := true
	rr := rand.New(rand.NewSource(int64(sc.RunSeed) + 7))
	sparse := sp.TornLimit > 0 && sp.TornLimit < 64 // documents of megabytes: every call boundary, few torn prefixes per write
	for _, ev := range trace {
		slots = append(slots, slot{simos.CrashPoint{Event: ev.N, When: "before"}, "before-" + ev.Call})
		if ev.Call == "write" && ev.Arg > 0 {
			n := ev.Arg
			offs := map[int]bool{}
			if n <= sp.TornLimit || sp.TornLimit == 0 {
				for k := 0; k < n; k++ {
					offs[k] = true
				}
			} else {
				exhaustive = false
				edge, random := 16, 64
				if sparse {
					edge, random = 3, 6
				}
				for k := 0; k < edge && k < n; k++ {
					offs[k] = true
					offs[n-1-k] = true
				}
				for i := 0; i < random; i++ {
					offs[rr.Intn(n)] = true
				}
			}
			// field boundaries of the new document's encoding (the write carries a slice of it)
			fbs := fieldBoundaries(mustMarshal(newDoc))
			if sparse && len(fbs) > 12 {
				// a very large document: a sample of its field boundaries
				exhaustive = false
				keep := append([]int{}, fbs[:2]...)
				for i := 0; i < 6; i++ {
					keep = append(keep, fbs[rr.Intn(len(fbs))])
				}
				fbs = keep
			}
			for _, fb := range fbs {
				for _, k := range []int{fb - 1, fb, fb + 1} {
					if k >= 0 && k < n {
						offs[k] = true
					}
				}
			}
			ks := make([]int, 0, len(offs))
			for k := range offs {
				ks = append(ks, k)
			}
			sort.Ints(ks)
			for _, k := range ks {
				slots = append(slots, slot{simos.CrashPoint{Event: ev.N, When: "torn", Prefix: k}, "in-write"})
			}
		}
		slots = append(slots, slot{simos.CrashPoint{Event: ev.N, When: "after"}, "after-" + ev.Call})
	}

	outcomeCount := map[string]int{}
	res.Extra = addExtra(res.Extra, "slots_total", len(slots))
	if sp.SlotHi > 0 && sp.SlotHi <= len(slots) && sp.SlotLo < sp.SlotHi {
		slots = slots[sp.SlotLo:sp.SlotHi] // replay files may restrict the enumeration to a range of slots
		exhaustive = false
	}
	dbg := os.Getenv("VERIF_C20_DEBUG") != ""
	t0 := time.Now()
	for si, sl := range slots {
		if dbg && si%10 == 0 {
			if f, err := os.OpenFile("/tmp/c20debug.log", os.O_APPEND|os.O_CREATE|os.O_WRONLY, 0o644); err == nil { fmt.Fprintf(f, "slot %d of %d, %.1fs\n", si, len(slots), time.Since(t0).Seconds()); f.Close() }
		}
		d := pre.Clone()
		cp := sl.cp
		sr, _, _ := runStore(d, &cp)
		if !sr.Killed {
			// the slot was not reached (cannot happen for slots taken from the trace of the same deterministic store)
			res.Harness = fmt.Sprintf("C20: crash slot %+v was not reached", sl.cp)
			return res
		}
		res.Slots++
		if sl.cp.Event >= firstMod && firstMod >= 0 {
			res.Extra = addExtra(res.Extra, "slots_after_first_modification", 1)
		}
		for k, v := range d.Fired {
			res.Faults[k] += v
		}
		// ---- restart on the frozen disk ----
		d.ResetPlan()
		d.Quiet = true
		simos.Mount(d)
		env3 := &env{sp: sp, res: res, disk: d, docs: docs}
		env3.fs = &storage.FileSystem{Options: storage.FileSystemOptions{Path: sp.Path}}
		doc, rerr, abort, msg := env3.retrieve(id, "fs")
		oc := "err"
		switch {
		case abort != "":
			oc = abort
		case rerr == nil && doc == nil:
			oc = "nilnil"
		case rerr != nil:
			oc = "err"
		case proto.Equal(doc, newDoc):
			oc = "new"
		case oldDoc != nil && proto.Equal(doc, oldDoc):
			oc = "old"
		case matchesAny(doc, alsoAllowed):
			oc = "old" // the complete document of the earlier store that crashed (it may have been installed)
		case isEmptyDoc(doc):
			oc = "empty-doc"
		default:
			oc = "partial-doc"
		}
		outcomeCount[oc]++
		if oc != "err" && oc != "new" && oc != "old" {
			res.Violate(fmt.Sprintf("crash:%s:%s", slotClass(sl, firstMod), oc),
				fmt.Sprintf("process death %s system call #%d (%s%s) of Store(%q): a later Retrieve returned %s %s; allowed are the complete old document, the complete new document or an error",
					sl.cp.When, sl.cp.Event, sl.desc, prefixNote(sl.cp), short(id), oc, first(msg)))
		}
		if st.NoClobber && oldDoc != nil && oc == "new" {
			res.Violate("crash:"+slotClass(sl, firstMod)+":noclobber-replaced", "with no-clobber set and an existing entry, a crashed store replaced the entry")
		}
		// an identifier whose own earlier store crashed: an error or one of its complete documents
		for _, oid := range sortedKeys(otherAllowed) {
			od, oerr, oabort, _ := env3.retrieve(oid, "fs")
			if oabort != "" || (oerr == nil && !matchesAny(od, otherAllowed[oid])) {
				res.Violate("crash:"+slotClass(sl, firstMod)+":other-id-changed", fmt.Sprintf("process death at %s of Store(%q): the entry of %q (itself left by a crashed store) now yields a document that was never stored under it", sl.desc, short(id), oid))
			}
		}
		// other identifiers are unaffected
		for _, oid := range sortedKeys(e.model) {
			if oid == id {
				continue
			}
			od, oerr, oabort, _ := env3.retrieve(oid, "fs")
			if oabort != "" || oerr != nil || !proto.Equal(od, e.model[oid].doc) {
				res.Violate("crash:"+slotClass(sl, firstMod)+":other-id-changed", fmt.Sprintf("process death at %s of Store(%q) changed the entry of %q", sl.desc, short(id), oid))
			}
		}
		// ---- life goes on, variant: the next store is one of ANOTHER identifier (on a copy of the disk); whatever
		// it tidies up, the crashed identifier still yields old, new or an error, and the others are untouched
		if len(slots) <= 300 || si%8 == 1 {
			d2 := d.Clone()
			d2.ResetPlan()
			d2.Quiet = true
			simos.Mount(d2)
			env4 := &env{sp: sp, res: res, disk: d2, docs: docs}
			env4.fs = &storage.FileSystem{Options: storage.FileSystemOptions{Path: sp.Path}}
			later := proto.Clone(docs[len(docs)-1]).(*sbom.Document)
			later.Metadata.Id = "later-other-identifier"
			_, sabort, _ := env4.store(later, false, "fs")
			if sabort != "" {
				res.Violate("crash:"+slotClass(sl, firstMod)+":next-store-"+sabort, fmt.Sprintf("process death at %s of Store(%q): the next store (of another identifier) ended in %s", sl.desc, short(id), sabort))
			} else {
				res.Probes["store of another identifier after a crash"]++
				doc2, rerr2, abort2, _ := env4.retrieve(id, "fs")
				ok2 := abort2 == "" && (rerr2 != nil || (doc2 != nil && (proto.Equal(doc2, newDoc) || (oldDoc != nil && proto.Equal(doc2, oldDoc)) || matchesAny(doc2, alsoAllowed))))
				if !ok2 {
					res.Violate("crash:"+slotClass(sl, firstMod)+":partial-doc-after-next-store", fmt.Sprintf("process death %s system call #%d (%s%s) of Store(%q), then an uninterrupted store of another identifier: Retrieve(%q) now returns a document that is neither the complete old nor the complete new one (abort=%q)", sl.cp.When, sl.cp.Event, sl.desc, prefixNote(sl.cp), short(id), short(id), abort2))
				}
				for _, oid := range sortedKeys(e.model) {
					if oid == id {
						continue
					}
					od, oerr, oabort, _ := env4.retrieve(oid, "fs")
					if oabort != "" || oerr != nil || !proto.Equal(od, e.model[oid].doc) {
						res.Violate("crash:"+slotClass(sl, firstMod)+":other-id-changed-by-next-store", fmt.Sprintf("process death at %s of Store(%q), then a store of another identifier: the entry of %q changed", sl.desc, short(id), oid))
					}
				}
			}
			simos.Mount(d)
		}
		// ---- life goes on: the next (uninterrupted) store on top of what the crash left, here of the same
		// identifier, must, if it reports success, be retrievable exactly, and must leave the others alone
		if len(slots) <= 300 || si%8 == 0 {
			again := proto.Clone(newDoc).(*sbom.Document)
			serr, sabort, _ := env3.store(again, false, "fs")
			switch {
			case sabort != "":
				res.Violate("crash:"+slotClass(sl, firstMod)+":next-store-"+sabort, fmt.Sprintf("process death at %s of Store(%q): the next store of that identifier ended in %s", sl.desc, short(id), sabort))
			case serr == nil:
				res.Probes["store after a crash, on its leftovers"]++
				got, gerr, gabort, _ := env3.retrieve(id, "fs")
				if gabort != "" || gerr != nil || !proto.Equal(got, newDoc) {
					res.Violate("crash:"+slotClass(sl, firstMod)+":next-store-not-retrievable", fmt.Sprintf("process death at %s of Store(%q), then an uninterrupted store of that identifier reported success, but Retrieve gives err=%v abort=%q / another document", sl.desc, short(id), gerr, gabort))
				}
				for _, oid := range sortedKeys(e.model) {
					if oid == id {
						continue
					}
					od, oerr, oabort, _ := env3.retrieve(oid, "fs")
					if oabort != "" || oerr != nil || !proto.Equal(od, e.model[oid].doc) {
						res.Violate("crash:"+slotClass(sl, firstMod)+":other-id-changed-by-next-store", fmt.Sprintf("process death at %s of Store(%q), then the next store of that identifier: the entry of %q changed", sl.desc, short(id), oid))
					}
				}
			}
		}
		switch sl.desc {
		case "in-write":
			res.Probes["crash landed inside a write"]++
		case "after-open":
			res.Probes["crash right after an open/create"]++
		case "before-rename":
			res.Probes["crash between temp file completion and rename"]++
		}
		if len(e.model) > 1 || (len(e.model) == 1 && oldDoc == nil) {
			res.Probes["crash with other identifiers present"]++
		}
	}
	_ = serr0
	res.Exhaustive = exhaustive
	res.Ops = 1 + len(sp.Pre)
	var calls []string
	for _, ev := range trace {
		calls = append(calls, ev.Call)
	}
	res.Outcomes = []string{fmt.Sprintf("calls=%v", calls)}
	for _, k := range sortedKeys(outcomeCount) {
		res.Outcomes = append(res.Outcomes, fmt.Sprintf("%s=%d", k, outcomeCount[k]))
	}
	h := sr0.LogHash
	for _, o := range res.Outcomes {
		h = h*1099511628211 ^ core.HashStr(o)
	}
	res.LogHash = fmt.Sprintf("%016x", h)
	res.Nontrivial = firstMod >= 0 && res.Slots > 0
	res.Cases = res.Extra["slots_after_first_modification"]
	res.Key = fmt.Sprintf("%016x", core.HashStr(string(sc.Spec)))
	res.States = []string{fmt.Sprintf("%v", calls)}
	if sc.Run%29 == 0 {
		res.Sample = map[string]any{"run": sc.Run, "uid": sp.UID, "dir_state": sp.DirState, "overwrite": oldDoc != nil, "noclobber": st.NoClobber,
			"syscalls_of_store": calls, "crash_slots": res.Slots, "retrieve_outcomes_after_crash": outcomeCount, "write_split": sp.WriteSplit}
	}
	return res
}

// slotClass groups crash slots for signatures: before the store modified
// anything, inside a write, or between two system calls.
func slotClass(sl slot, firstMod int) string {
	switch {
	case firstMod < 0 || sl.cp.Event < firstMod || (sl.cp.Event == firstMod && sl.cp.When == "before"):
		return "before-first-modification"
	case sl.cp.When == "torn":
		return "in-write"
	}
	return "between-calls"
}

func matchesAny(d *sbom.Document, set []*sbom.Document) bool {
	for _, x := range set {
		if proto.Equal(d, x) {
			return true
		}
	}
	return false
}

func prefixNote(cp simos.CrashPoint) string {
	if cp.When == "torn" {
		return fmt.Sprintf(", %d bytes of the write applied", cp.Prefix)
	}
	return ""
}

func addExtra(m map[string]int, k string, v int) map[string]int {
	if m == nil {
		m = map[string]int{}
	}
	m[k] += v
	return m
}

func mustMarshal(d *sbom.Document) []byte {
	b, err := proto.MarshalOptions{Deterministic: true}.Marshal(d)
	if err != nil {
		panic(err)
	}
	return b
}
