package concur

import (
	"bytes"
	"fmt"
	"math/rand"
	"sort"
	"strings"

	"github.com/protobom/protobom/pkg/formats"
	"github.com/protobom/protobom/pkg/native"
	"github.com/protobom/protobom/pkg/reader"
	"github.com/protobom/protobom/pkg/sbom"
	verifsim "github.com/protobom/protobom/pkg/verifsim"
	"github.com/protobom/protobom/pkg/writer"
	"google.golang.org/protobuf/proto"
	"google.golang.org/protobuf/types/known/timestamppb"

	"verif/internal/core"
	"verif/internal/gen"
)

// C07: serializers are total inside histories and deterministic across histories.

var c07Formats = []string{
	string(formats.SPDX23JSON), string(formats.CDX10JSON), string(formats.CDX11JSON), string(formats.CDX12JSON),
	string(formats.CDX13JSON), string(formats.CDX14JSON), string(formats.CDX15JSON),
}

func family(f string) string {
	if strings.Contains(f, "spdx") {
		return "spdx"
	}
	if strings.Contains(f, "cyclonedx") {
		return "cdx"
	}
	return "other"
}

// c07Pool is the fixed document pool of a batch, derived from VERIF_SEED.
var c07PoolCache = map[int64][]*sbom.Document{}

func c07Pool(verifSeed int64) []*sbom.Document {
	if p, ok := c07PoolCache[verifSeed]; ok {
		return p
	}
	p := c07BuildPool(verifSeed)
	c07PoolCache[verifSeed] = p
	return p
}

func c07BuildPool(verifSeed int64) []*sbom.Document {
	r := rand.New(rand.NewSource(verifSeed*7919 + 7))
	var pool []*sbom.Document
	for i := 0; i < 12; i++ {
		pool = append(pool, serialisableDoc(r, fmt.Sprintf("g%d", i), 2+i%5))
	}
	for i := 0; i < 12; i++ {
		g := gen.New(r.Int63(), gen.Profile{MaxNodes: 5, Tag: fmt.Sprintf("f%d", i), Hostile: i%2 == 1})
		pool = append(pool, g.Document(fmt.Sprintf("urn:uuid:00000000-0000-4000-8000-%012d", i)))
	}
	base := func(tag string) *sbom.Document { return serialisableDoc(r, tag, 3) }
	// ---- hostile pool ----
	h := func(f func(d *sbom.Document)) {
		d := base(fmt.Sprintf("h%d", len(pool)))
		f(d)
		pool = append(pool, d)
	}
	h(func(d *sbom.Document) { d.Metadata = nil })
	h(func(d *sbom.Document) { d.NodeList = nil })
	h(func(d *sbom.Document) { d.Metadata, d.NodeList = nil, nil })
	zero := &sbom.Document{}
	_ = proto.Unmarshal(nil, zero)
	pool = append(pool, zero)
	h(func(d *sbom.Document) { d.Metadata.DocumentTypes = []*sbom.DocumentType{{}} })
	h(func(d *sbom.Document) {
		t := sbom.DocumentType_OTHER
		d.Metadata.DocumentTypes = []*sbom.DocumentType{{Type: &t}}
	})
	h(func(d *sbom.Document) {
		t := sbom.DocumentType_SBOMType(77)
		d.Metadata.DocumentTypes = []*sbom.DocumentType{{Type: &t}}
	})
	h(func(d *sbom.Document) {
		n := "only-name"
		d.Metadata.DocumentTypes = []*sbom.DocumentType{{Name: &n}}
	})
	h(func(d *sbom.Document) {
		for _, n := range d.NodeList.Nodes {
			n.PrimaryPurpose = []sbom.Purpose{sbom.Purpose(999)}
			n.Hashes = map[int32]string{4242: "deadbeef"}
			n.Type = sbom.Node_NodeType(55)
			n.Identifiers = map[int32]string{777: "x"}
			n.ExternalReferences = []*sbom.ExternalReference{{Url: "u", Type: sbom.ExternalReference_ExternalReferenceType(888), Hashes: map[int32]string{4242: "aa"}}}
		}
		for _, e := range d.NodeList.Edges {
			e.Type = sbom.Edge_Type(4444)
		}
	})
	h(func(d *sbom.Document) { // negative enum numbers, one value per list
		for _, n := range d.NodeList.Nodes {
			n.PrimaryPurpose = []sbom.Purpose{sbom.Purpose(-3)}
			n.Hashes = map[int32]string{-5: "deadbeef"}
			n.Identifiers = map[int32]string{-2: "x"}
			n.ExternalReferences = []*sbom.ExternalReference{{Url: "u", Type: sbom.ExternalReference_ExternalReferenceType(-9), Hashes: map[int32]string{-1: "aa"}}}
		}
	})
	h(func(d *sbom.Document) {
		for _, n := range d.NodeList.Nodes {
			n.Type = sbom.Node_NodeType(-1)
		}
		for _, e := range d.NodeList.Edges {
			e.Type = sbom.Edge_Type(-4)
		}
		t := sbom.DocumentType_SBOMType(-6)
		d.Metadata.DocumentTypes = []*sbom.DocumentType{{Type: &t}}
	})
	// every free-text string replaced by one awkward style (identifiers, which edges refer to, stay)
	styles := []func(string) string{
		func(s string) string { return "line1\n" + s + "\nline3" },
		func(s string) string { return "tab\t" + s + "\r\n" },
		func(s string) string { return `quote"` + s + `\back\slash` },
		func(s string) string { return s + "-v1.2-3-" },
		func(s string) string { return "" },
		func(s string) string { return "(" + s + "[*+?{" },
		func(s string) string { return s + "\u2028\u00a0\ufeff" },
		func(s string) string { return strings.Repeat(s+" ", 400) },
		func(s string) string { return "%s%d%!v(" + s },
		func(s string) string { return "\x00" + s + "\x7f" },
	}
	for si, style := range styles {
		st := style
		_ = si
		h(func(d *sbom.Document) {
			gen.MapStrings(d.ProtoReflect(), "", func(path, s string) string {
				if strings.HasSuffix(path, ".id") || strings.HasSuffix(path, ".from") || strings.HasSuffix(path, ".to") || strings.HasSuffix(path, ".root_elements") {
					return s
				}
				return st(s)
			})
			// tools/authors without version or e-mail, the usual shape of hand-made documents
			d.Metadata.Tools = append(d.Metadata.Tools, &sbom.Tool{Name: st("tool")}, &sbom.Tool{Name: st("tool-1.0")})
			d.Metadata.Authors = append(d.Metadata.Authors, &sbom.Person{Name: st("author")})
		})
	}
	for _, ver := range []string{"99999999999999999999", "-1", "1e3", " 7 "} {
		v := ver
		h(func(d *sbom.Document) { d.Metadata.Version = v })
	}
	for _, typ := range []sbom.Edge_Type{sbom.Edge_contains, sbom.Edge_dependsOn} {
		// diamond lattice: 2^24 paths from the root, 50 nodes (an implementation that walks paths, not nodes, never returns)
		t := typ
		h(func(d *sbom.Document) {
			g := gen.New(r.Int63(), gen.Profile{Serialisable: true, Tag: "lat"})
			d.NodeList = &sbom.NodeList{}
			id := func(l, k int) string { return fmt.Sprintf("SPDXRef-lat-%d-%d", l, k) }
			d.NodeList.Nodes = append(d.NodeList.Nodes, g.Node("SPDXRef-lat-root"))
			d.NodeList.RootElements = []string{"SPDXRef-lat-root"}
			d.NodeList.Edges = append(d.NodeList.Edges, &sbom.Edge{Type: sbom.Edge_contains, From: "SPDXRef-lat-root", To: []string{id(0, 0), id(0, 1)}})
			for l := 0; l < 24; l++ {
				for k := 0; k < 2; k++ {
					d.NodeList.Nodes = append(d.NodeList.Nodes, &sbom.Node{Id: id(l, k), Name: id(l, k), Type: sbom.Node_PACKAGE})
					if l < 23 {
						d.NodeList.Edges = append(d.NodeList.Edges, &sbom.Edge{Type: t, From: id(l, k), To: []string{id(l+1, 0), id(l+1, 1)}})
					}
				}
			}
		})
	}
	h(func(d *sbom.Document) { // a root listed twice, an edge without ends, thousands of targets and roots
		d.NodeList.RootElements = append(d.NodeList.RootElements, d.NodeList.RootElements...)
		d.NodeList.Edges = append(d.NodeList.Edges, &sbom.Edge{Type: sbom.Edge_contains, From: "", To: []string{""}})
	})
	h(func(d *sbom.Document) {
		e := &sbom.Edge{Type: sbom.Edge_dependsOn, From: d.NodeList.Nodes[0].Id}
		for i := 0; i < 3000; i++ {
			e.To = append(e.To, d.NodeList.Nodes[i%len(d.NodeList.Nodes)].Id)
		}
		d.NodeList.Edges = append(d.NodeList.Edges, e)
	})
	h(func(d *sbom.Document) {
		for _, n := range d.NodeList.Nodes {
			n.Id = ""
		}
	})
	h(func(d *sbom.Document) {
		for _, n := range d.NodeList.Nodes {
			n.Id = d.NodeList.Nodes[0].Id
		}
	})
	h(func(d *sbom.Document) {
		d.NodeList.Edges = append(d.NodeList.Edges, &sbom.Edge{Type: sbom.Edge_contains, From: "nowhere", To: []string{"nothing"}},
			&sbom.Edge{Type: sbom.Edge_dependsOn, From: d.NodeList.Nodes[0].Id, To: []string{"nothing", ""}})
		d.NodeList.RootElements = []string{"not-a-node"}
	})
	h(func(d *sbom.Document) {
		id := d.NodeList.Nodes[0].Id
		d.NodeList.Edges = append(d.NodeList.Edges, &sbom.Edge{Type: sbom.Edge_contains, From: id, To: []string{id}})
	})
	h(func(d *sbom.Document) { // cycle in contains
		ns := d.NodeList.Nodes
		d.NodeList.Edges = nil
		for i := range ns {
			d.NodeList.Edges = append(d.NodeList.Edges, &sbom.Edge{Type: sbom.Edge_contains, From: ns[i].Id, To: []string{ns[(i+1)%len(ns)].Id}})
		}
	})
	h(func(d *sbom.Document) { // cycle in dependsOn, two edges per (source,type)
		ns := d.NodeList.Nodes
		for i := range ns {
			d.NodeList.Edges = append(d.NodeList.Edges, &sbom.Edge{Type: sbom.Edge_dependsOn, From: ns[i].Id, To: []string{ns[(i+1)%len(ns)].Id}},
				&sbom.Edge{Type: sbom.Edge_dependsOn, From: ns[i].Id, To: []string{ns[0].Id}})
		}
	})
	h(func(d *sbom.Document) { d.NodeList.RootElements = nil })
	h(func(d *sbom.Document) {
		d.NodeList.RootElements = nil
		for _, n := range d.NodeList.Nodes {
			d.NodeList.RootElements = append(d.NodeList.RootElements, n.Id)
		}
	})
	h(func(d *sbom.Document) { d.NodeList.Nodes, d.NodeList.Edges, d.NodeList.RootElements = nil, nil, nil })
	h(func(d *sbom.Document) {
		d.Metadata.Date = &timestamppb.Timestamp{Seconds: -62135596801, Nanos: -5}
		d.Metadata.Version = "not-a-number"
		d.Metadata.Authors = []*sbom.Person{{}, {Name: "x", Contacts: []*sbom.Person{{Name: "y"}}}}
		d.Metadata.Tools = []*sbom.Tool{{}}
		for _, n := range d.NodeList.Nodes {
			n.ReleaseDate = &timestamppb.Timestamp{Seconds: 1 << 60}
			n.Suppliers = []*sbom.Person{{}}
			n.Licenses = []string{"", "((("}
			n.LicenseConcluded = ")("
		}
	})
	// random containment graphs over well-formed nodes: DAGs (a node with two parents), cycles that do
	// not pass through the root, self loops on non-root nodes, chains below a top-level component
	for i := 0; i < 14; i++ {
		d := base(fmt.Sprintf("c%d", i))
		g := gen.New(r.Int63(), gen.Profile{Serialisable: true, Tag: fmt.Sprintf("c%d", i)})
		n := 3 + r.Intn(5)
		d.NodeList = &sbom.NodeList{}
		for j := 0; j < n; j++ {
			d.NodeList.Nodes = append(d.NodeList.Nodes, g.Node(fmt.Sprintf("SPDXRef-c%dn%d", i, j)))
		}
		id := func(j int) string { return d.NodeList.Nodes[j].Id }
		d.NodeList.RootElements = []string{id(0)}
		d.NodeList.Edges = append(d.NodeList.Edges, &sbom.Edge{Type: sbom.Edge_contains, From: id(0), To: []string{id(1)}})
		for j := 2; j < n; j++ { // a chain/tree below the top-level component 1
			d.NodeList.Edges = append(d.NodeList.Edges, &sbom.Edge{Type: sbom.Edge_contains, From: id(1 + r.Intn(j-1)), To: []string{id(j)}})
		}
		switch i % 4 {
		case 0: // back edge: cycle among non-root nodes
			d.NodeList.Edges = append(d.NodeList.Edges, &sbom.Edge{Type: sbom.Edge_contains, From: id(n - 1), To: []string{id(1 + r.Intn(n-2))}})
		case 1: // self loop on a non-root node
			k := 1 + r.Intn(n-1)
			d.NodeList.Edges = append(d.NodeList.Edges, &sbom.Edge{Type: sbom.Edge_contains, From: id(k), To: []string{id(k)}})
		case 2: // second parent (DAG)
			d.NodeList.Edges = append(d.NodeList.Edges, &sbom.Edge{Type: sbom.Edge_contains, From: id(0), To: []string{id(n - 1)}})
		case 3: // two-node cycle plus dependency cycle
			d.NodeList.Edges = append(d.NodeList.Edges, &sbom.Edge{Type: sbom.Edge_contains, From: id(2), To: []string{id(1)}},
				&sbom.Edge{Type: sbom.Edge_dependsOn, From: id(1), To: []string{id(2), id(1)}})
		}
		// edges are stored in no particular order (child-first orders included)
		r.Shuffle(len(d.NodeList.Edges), func(a, b int) { d.NodeList.Edges[a], d.NodeList.Edges[b] = d.NodeList.Edges[b], d.NodeList.Edges[a] })
		pool = append(pool, d)
	}
	for i := 0; i < 6; i++ { // deep containment chains whose edges are listed child-first, identifiers not in depth order
		d := base(fmt.Sprintf("k%d", i))
		g := gen.New(r.Int63(), gen.Profile{Serialisable: true, Tag: fmt.Sprintf("k%d", i)})
		names := []string{"SPDXRef-root", "SPDXRef-zeta", "SPDXRef-alpha", "SPDXRef-mid", "SPDXRef-beta", "SPDXRef-omega"}
		n := 4 + r.Intn(3)
		r.Shuffle(len(names)-1, func(a, b int) { names[a+1], names[b+1] = names[b+1], names[a+1] })
		d.NodeList = &sbom.NodeList{RootElements: []string{names[0]}}
		for j := 0; j < n; j++ {
			d.NodeList.Nodes = append(d.NodeList.Nodes, g.Node(names[j]))
		}
		typ := sbom.Edge_contains
		if i%3 == 2 {
			typ = sbom.Edge_dependsOn
		}
		for j := n - 1; j >= 1; j-- { // deepest edge first
			t := typ
			if j == 1 {
				t = sbom.Edge_contains
			}
			d.NodeList.Edges = append(d.NodeList.Edges, &sbom.Edge{Type: t, From: names[j-1], To: []string{names[j]}})
		}
		pool = append(pool, d)
	}
	// a family of documents over ONE small identifier namespace: what one document leaves behind in a
	// driver (or a pool) meets the same identifiers in the next; absent nodes make edges dangle
	names := []string{"SPDXRef-fam-a", "SPDXRef-fam-b", "SPDXRef-fam-c", "SPDXRef-fam-d", "SPDXRef-fam-e"}
	for i := 0; i < 12; i++ {
		d := base(fmt.Sprintf("m%d", i))
		g := gen.New(r.Int63(), gen.Profile{Serialisable: true, Tag: fmt.Sprintf("m%d", i)})
		d.NodeList = &sbom.NodeList{}
		present := map[string]bool{}
		for j, nm := range names {
			if j == 0 || r.Intn(3) != 0 {
				d.NodeList.Nodes = append(d.NodeList.Nodes, g.Node(nm))
				present[nm] = true
			}
		}
		d.NodeList.RootElements = []string{names[0]}
		for k := 1 + r.Intn(5); k > 0; k-- {
			from := names[r.Intn(len(names))]
			if !present[from] && r.Intn(3) != 0 {
				from = names[0]
			}
			e := &sbom.Edge{Type: []sbom.Edge_Type{sbom.Edge_contains, sbom.Edge_contains, sbom.Edge_dependsOn}[r.Intn(3)], From: from}
			for j := 1 + r.Intn(2); j > 0; j-- {
				e.To = append(e.To, names[r.Intn(len(names))]) // may name an absent node
			}
			d.NodeList.Edges = append(d.NodeList.Edges, e)
		}
		pool = append(pool, d)
	}
	for i := 0; i < 8; i++ { // schema-driven hostile documents, forced to one existing root so that serializers get past their guards
		g := gen.New(r.Int63(), gen.Profile{MaxNodes: 6, Tag: fmt.Sprintf("x%d", i), Hostile: true})
		d := g.Document(fmt.Sprintf("urn:uuid:11111111-0000-4000-8000-%012d", i))
		if len(d.NodeList.Nodes) > 0 {
			d.NodeList.RootElements = []string{d.NodeList.Nodes[r.Intn(len(d.NodeList.Nodes))].Id}
		}
		pool = append(pool, d)
	}
	h(func(d *sbom.Document) { // an edge list entry and nodes with empty strings everywhere
		d.NodeList.Edges = append(d.NodeList.Edges, &sbom.Edge{})
		d.NodeList.Nodes = append(d.NodeList.Nodes, &sbom.Node{})
	})
	// every defined value of every enum occurs in this document (edge types, purposes, hash algorithms,
	// external reference types, identifier types, document types)
	{
		d := sbom.NewDocument()
		d.Metadata.Id = "urn:uuid:44444444-0000-4000-8000-000000000001"
		d.Metadata.Name = "enum-sweep"
		root := &sbom.Node{Id: "sweep-root", Name: "root", Version: "1", Type: sbom.Node_PACKAGE}
		d.NodeList.Nodes = append(d.NodeList.Nodes, root)
		d.NodeList.RootElements = []string{"sweep-root"}
		var ets []int
		for n := range sbom.Edge_Type_name {
			ets = append(ets, int(n))
		}
		sort.Ints(ets)
		for i, et := range ets {
			id := fmt.Sprintf("sweep-%02d", i)
			n := &sbom.Node{Id: id, Name: "n" + id, Version: "1", Type: sbom.Node_PACKAGE}
			d.NodeList.Nodes = append(d.NodeList.Nodes, n)
			d.NodeList.Edges = append(d.NodeList.Edges, &sbom.Edge{Type: sbom.Edge_Type(et), From: "sweep-root", To: []string{id}})
		}
		all := &sbom.Node{Id: "sweep-all", Name: "all", Version: "2", Type: sbom.Node_PACKAGE, Hashes: map[int32]string{}, Identifiers: map[int32]string{}}
		for n := range sbom.Purpose_name {
			all.PrimaryPurpose = append(all.PrimaryPurpose, sbom.Purpose(n))
		}
		sort.Slice(all.PrimaryPurpose, func(i, j int) bool { return all.PrimaryPurpose[i] < all.PrimaryPurpose[j] })
		for n := range sbom.HashAlgorithm_name {
			all.Hashes[n] = fmt.Sprintf("%040x", n)
		}
		for n := range sbom.SoftwareIdentifierType_name {
			all.Identifiers[n] = fmt.Sprintf("id-%d", n)
		}
		var erts []int
		for n := range sbom.ExternalReference_ExternalReferenceType_name {
			erts = append(erts, int(n))
		}
		sort.Ints(erts)
		for _, n := range erts {
			all.ExternalReferences = append(all.ExternalReferences, &sbom.ExternalReference{Url: fmt.Sprintf("https://example.com/%d", n), Type: sbom.ExternalReference_ExternalReferenceType(n)})
		}
		d.NodeList.Nodes = append(d.NodeList.Nodes, all)
		d.NodeList.Edges = append(d.NodeList.Edges, &sbom.Edge{Type: sbom.Edge_contains, From: "sweep-root", To: []string{"sweep-all"}})
		var dts []int
		for n := range sbom.DocumentType_SBOMType_name {
			dts = append(dts, int(n))
		}
		sort.Ints(dts)
		for _, n := range dts {
			t := sbom.DocumentType_SBOMType(n)
			d.Metadata.DocumentTypes = append(d.Metadata.DocumentTypes, &sbom.DocumentType{Type: &t})
		}
		pool = append(pool, d)
	}
	// documents that went through protobom once already (written, parsed again), once and twice
	for i, f := range []string{c07Formats[0], c07Formats[len(c07Formats)-1], c07Formats[0], c07Formats[1]} {
		d := base(fmt.Sprintf("rt%d", i))
		for k := 0; k <= i/2; k++ {
			if b, err := gen.RenderSafe(f, d, 2); err == nil {
				// parsed twice: only a result that does not depend on the process (random identifiers) may enter the pool
				back, perr := reader.New().ParseStream(bytes.NewReader(b))
				again, perr2 := reader.New().ParseStream(bytes.NewReader(b))
				if perr == nil && perr2 == nil && back != nil && again != nil && back.Metadata != nil && again.Metadata != nil {
					back.Metadata.Id = fmt.Sprintf("urn:uuid:33333333-0000-4000-8000-%012d", i)
					again.Metadata.Id = back.Metadata.Id
					if proto.Equal(back, again) {
						d = back
					}
				}
			}
		}
		pool = append(pool, d)
	}
	// large documents (beyond any plausible "small input" threshold of a driver), the first with every
	// identifier used by two nodes that carry different data, far apart in the list
	c07BigStart = len(pool)
	pool = append(pool, c07BigDoc(r, 700, true), c07BigDoc(r, 1300, false), c07BigDoc(r, 4200, true))
	return pool
}

var c07BigStart int

func c07BigDoc(r *rand.Rand, n int, dup bool) *sbom.Document {
	d := sbom.NewDocument()
	d.Metadata.Id = fmt.Sprintf("urn:uuid:22222222-0000-4000-8000-%012d", n)
	d.Metadata.Name = fmt.Sprintf("big-%d", n)
	root := &sbom.Node{Id: "big-root", Name: "root", Version: "1", Type: sbom.Node_PACKAGE}
	d.NodeList.Nodes = append(d.NodeList.Nodes, root)
	d.NodeList.RootElements = []string{"big-root"}
	distinct := n
	if dup {
		distinct = n / 2
	}
	contains := &sbom.Edge{Type: sbom.Edge_contains, From: "big-root"}
	depends := &sbom.Edge{Type: sbom.Edge_dependsOn, From: "big-root"}
	for i := 0; i < n; i++ {
		id := fmt.Sprintf("n%05d", i%distinct)
		nd := &sbom.Node{Id: id, Name: fmt.Sprintf("pkg-%d-of-%s", i, id), Version: fmt.Sprintf("%d.%d", i/distinct, i%97), Type: sbom.Node_PACKAGE,
			Description: fmt.Sprintf("occurrence %d", i/distinct), Licenses: []string{"MIT"},
			Identifiers: map[int32]string{int32(sbom.SoftwareIdentifierType_PURL): fmt.Sprintf("pkg:generic/p%d@%d", i, i/distinct)},
			Hashes:      map[int32]string{int32(sbom.HashAlgorithm_SHA256): fmt.Sprintf("%064x", i)}}
		if i%5 == 0 {
			nd.Type = sbom.Node_FILE
		}
		d.NodeList.Nodes = append(d.NodeList.Nodes, nd)
		if i < distinct {
			if i%3 == 0 {
				depends.To = append(depends.To, id)
			} else {
				contains.To = append(contains.To, id)
			}
		}
	}
	d.NodeList.Edges = append(d.NodeList.Edges, contains, depends)
	for i := 0; i+1 < distinct; i += 7 {
		d.NodeList.Edges = append(d.NodeList.Edges, &sbom.Edge{Type: sbom.Edge_dependsOn, From: fmt.Sprintf("n%05d", i), To: []string{fmt.Sprintf("n%05d", i+1)}})
	}
	_ = r
	return d
}

func genC07(verifSeed int64, tier string, idx int) *core.Scenario {
	seed := core.SplitMix(uint64(verifSeed), uint64(idx)*2654435761+7)
	r := rand.New(rand.NewSource(int64(seed)))
	pool := c07Pool(verifSeed)
	sp := &Spec{}
	ntasks := 1
	if r.Intn(3) == 0 {
		ntasks = 2 + r.Intn(2)
	}
	total := 2 + r.Intn(9)
	if idx%10 == 0 {
		total, ntasks = 1, 1 // solo histories (length one, fresh process)
	}
	used := map[int]int{}
	pick := func() int {
		// bias: hostile documents and a few hot documents recur inside one history
		var pi int
		switch k := r.Intn(10); {
		case k < 5 && len(used) > 0: // the same document again (other format, other position)
			keys := make([]int, 0, len(used))
			for k := range used {
				keys = append(keys, k)
			}
			sort.Ints(keys)
			pi = keys[r.Intn(len(keys))]
		case k < 8:
			pi = 24 + r.Intn(len(pool)-24)
		default:
			pi = r.Intn(len(pool))
		}
		if _, ok := used[pi]; !ok {
			used[pi] = len(sp.Docs)
			sp.Docs = append(sp.Docs, docToB64(pool[pi]))
		}
		return pi
	}
	sp.Tasks = make([][]Op, ntasks)
	for i := 0; i < total; i++ {
		pi := pick()
		op := Op{K: "Write", D: used[pi], A: fmt.Sprintf("p%d", pi), F: c07Formats[r.Intn(len(c07Formats))], I: []int{0, 2, 4, 7}[r.Intn(4)]}
		if r.Intn(4) == 0 {
			op.F = c07Formats[0] // SPDX more often: the two families alternate on one document
		}
		if r.Intn(2) == 0 {
			// clock jumps, forwards and backwards
			op.J = (r.Int63n(4000) - 2000) * 1000000000
		}
		t := r.Intn(ntasks)
		sp.Tasks[t] = append(sp.Tasks[t], op)
	}
	sc := &core.Scenario{V: 1, Property: "C07", Engine: "concur", VerifSeed: verifSeed, Run: idx, RunSeed: seed}
	if ntasks == 1 {
		sc.Sched = verifsim.Config{Seed: seed, Policy: "serial", MaxSteps: 3000000, MapOrder: "random"}
	} else {
		sc.Sched = genSched(r, seed)
	}
	for pi := range used {
		if pi >= c07BigStart {
			// a large document: whatever goroutines a driver starts for it are interleaved at random, and the budget is larger
			if sc.Sched.Policy == "serial" {
				sc.Sched = genSched(r, seed)
			}
			sc.Sched.MaxSteps = 2000000000
			break
		}
	}
	if r.Intn(4) == 0 {
		sc.Sched.MapOrder = "sorted"
	}
	sc.Spec = encodeSpec(sp)
	return sc
}

func execC07(sc *core.Scenario) *core.Result {
	res := &core.Result{}
	sp, err := decodeSpec(sc)
	if err != nil {
		res.Harness = err.Error()
		return res
	}
	var docs []*sbom.Document
	for _, d := range sp.Docs {
		docs = append(docs, docFromB64(d))
	}
	verifsim.ClockSet(baseClock + int64(sc.RunSeed%1000)*1000000000)
	recs := mkRecs(sp.Tasks)
	trv0 := verifsim.ClockTravelled()
	sr := runTasks(sc.Sched, recs, func(rec *opRec) func() string {
		op := rec.Op
		// the same document object serves every call of the history that names it ("serializing the
		// same document twice"): a serializer that edits its operand shows up as order dependence
		doc := docs[op.D%len(docs)]
		return func() string {
			w := writer.New()
			s := &sink{}
			err := w.WriteStreamWithOptions(doc, s, &writer.Options{Format: formats.Format(op.F),
				RenderOptions: &native.RenderOptions{Indent: op.I}, SerializeOptions: &native.SerializeOptions{}})
			if err == nil && s.Len() == 0 {
				return "neither"
			}
			return writeOutcome(s, err)
		}
	})
	res.Sched = sr
	res.Ops = countOps(recs)
	res.SimNanos = verifsim.ClockTravelled() - trv0
	// T1: totality
	for _, list := range recs {
		for _, r := range list {
			fam := family(r.Op.F)
			if r.Abort != "" {
				res.Violate(fmt.Sprintf("total:%s:%s", fam, r.Abort), fmt.Sprintf("serializing document %s as %s ended in %s: %s", r.Op.A, r.Op.F, r.Abort, firstLine(r.AbortMsg)))
			} else if r.Done && r.Out == "neither" {
				res.Violate("total:"+fam+":neither", fmt.Sprintf("serializing document %s as %s returned no error and no output", r.Op.A, r.Op.F))
			}
		}
	}
	if sr.Hang {
		res.Violate("total:hang", "step budget exceeded: a serializer does not return")
	}
	// T2: determinism inside the history, and (by the driver) across histories
	res.Canon = map[string]string{}
	failedBefore := map[int]bool{}
	var flat []*opRec
	for _, list := range recs {
		flat = append(flat, list...)
	}
	sort.Slice(flat, func(i, j int) bool { return flat[i].Call < flat[j].Call })
	prevAbort, prevErr := false, false
	for _, r := range flat {
		if !r.Done || r.Abort != "" {
			prevAbort = true
			failedBefore[r.Task] = true
			continue
		}
		key := fmt.Sprintf("%s|%s|%d", r.Op.A, r.Op.F, r.Op.I)
		if prev, ok := res.Canon[key]; ok && prev != r.Out {
			res.Violate("nondet:"+family(r.Op.F)+":within-history", fmt.Sprintf("document %s serialized twice as %s (indent %d) in one history gave different canonical outputs (%s, then %s)", r.Op.A, r.Op.F, r.Op.I, prev, r.Out))
		}
		if _, ok := res.Canon[key]; !ok {
			res.Canon[key] = r.Out
		}
		if want, ok := sc.ExpectCanon[key]; ok && want != r.Out {
			res.Violate("nondet:"+family(r.Op.F)+":across-histories", fmt.Sprintf("document %s serialized as %s (indent %d) gave canonical output %s here, but %s as a history of length one in a fresh process", r.Op.A, r.Op.F, r.Op.I, r.Out, want))
		}
		if prevAbort && strings.HasPrefix(r.Out, "ok:") {
			res.Probe("aborting call followed by a success in the same process")
		}
		if prevErr && strings.HasPrefix(r.Out, "ok:") {
			res.Probe("call returning an error immediately followed by a success")
		}
		prevErr = r.Out == "err"
		if r.Op.J < 0 {
			res.Probe("clock jumped backwards before a write")
		}
	}
	res.Outcomes = outcomesOf(recs)
	h := sr.LogHash
	for _, o := range res.Outcomes {
		h = h*1099511628211 ^ core.HashStr(o)
	}
	res.LogHash = fmt.Sprintf("%016x", h)
	// non-trivial: the history holds >= 2 serialisations through the same driver family
	fams := map[string]int{}
	for _, r := range flat {
		fams[family(r.Op.F)]++
	}
	res.Nontrivial = fams["cdx"] >= 2 || fams["spdx"] >= 2
	res.Key = fmt.Sprintf("%016x-%016x", core.HashStr(string(sc.Spec)), sr.IlvHash)
	if sc.Run%97 == 0 {
		res.Sample = map[string]any{"run": sc.Run, "policy": sc.Sched.Policy, "map_order": sc.Sched.MapOrder, "tasks": sp.Tasks, "outcomes": res.Outcomes}
	}
	return res
}
