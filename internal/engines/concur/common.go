// Package concur is the engine for the properties that depend on schedules of
// caller goroutines and on histories through package-level state:
// C17, C18, C11, C12, C07.
package concur

import (
	"bytes"
	"encoding/base64"
	"encoding/json"
	"fmt"
	"io"
	"os"
	"regexp"
	"sort"
	"strings"

	"github.com/google/uuid"
	"github.com/protobom/protobom/pkg/sbom"
	verifsim "github.com/protobom/protobom/pkg/verifsim"
	"google.golang.org/protobuf/proto"

	"verif/internal/core"
	"verif/internal/gen"
)

type Engine struct{}

func (Engine) Name() string { return "concur" }

func init() { core.Register(Engine{}, "C17", "C18", "C11", "C12", "C07") }

// Op is one operation of a task. Fields are used as the kind requires.
type Op struct {
	K    string   `json:"k"`
	F    string   `json:"f,omitempty"`    // format
	T    string   `json:"t,omitempty"`    // driver tag / value tag
	S    int      `json:"s,omitempty"`    // stream index
	D    int      `json:"d,omitempty"`    // document / value index
	D2   int      `json:"d2,omitempty"`   // second operand
	I    int      `json:"i,omitempty"`    // indent / instance / depth
	Opts []string `json:"opts,omitempty"` // constructor options
	A    string   `json:"a,omitempty"`    // free argument (id, name, path)
	J    int64    `json:"j,omitempty"`    // clock jump (ns) before the op
}

func (o Op) String() string {
	b, _ := json.Marshal(o)
	return string(b)
}

// Spec is the engine-specific part of a scenario.
type Spec struct {
	Docs    []string `json:"docs,omitempty"`    // base64 protobuf sbom.Document
	Streams []string `json:"streams,omitempty"` // base64 bytes
	Tasks   [][]Op   `json:"tasks"`
	PreInit bool     `json:"pre_init,omitempty"` // touch the writer registry before the tasks start
	Shape   string   `json:"shape,omitempty"`
	Vals    []Val    `json:"vals,omitempty"` // C12 heap seeds
}

type Val struct {
	Kind string `json:"kind"` // node edge person extref nodelist
	PB   string `json:"pb"`
}

func decodeSpec(sc *core.Scenario) (*Spec, error) {
	var sp Spec
	if err := json.Unmarshal(sc.Spec, &sp); err != nil {
		return nil, err
	}
	return &sp, nil
}

func encodeSpec(sp *Spec) json.RawMessage {
	b, _ := json.Marshal(sp)
	return b
}

func b64(b []byte) string { return base64.StdEncoding.EncodeToString(b) }
func unb64(s string) []byte {
	b, _ := base64.StdEncoding.DecodeString(s)
	return b
}

func docFromB64(s string) *sbom.Document {
	d := &sbom.Document{}
	if err := proto.Unmarshal(unb64(s), d); err != nil {
		panic("concur: bad document in scenario: " + err.Error())
	}
	return d
}

func docToB64(d *sbom.Document) string {
	b, err := proto.MarshalOptions{Deterministic: true}.Marshal(d)
	if err != nil {
		panic(err)
	}
	return b64(b)
}

// ---- operation records and the task runner ----

type opRec struct {
	Task, Index int
	Op          Op
	Call, Ret   uint64
	Out         string
	Abort       string // panic / process-exit class
	AbortMsg    string
	Races       int
	Done        bool
	aux         any
}

// classify a recovered panic value
func classifyPanic(p any) (cls, msg string) {
	switch v := p.(type) {
	case core.ExitSentinel:
		return "process-exit", fmt.Sprintf("exit(%d)", v.Code)
	case error:
		return "panic", v.Error()
	default:
		return "panic", fmt.Sprint(v)
	}
}

var panicFrameRe = regexp.MustCompile(`github.com/protobom/protobom/pkg/([^\s(]+)`)

func runOp(rec *opRec, f func() string) {
	verifsim.OpBegin()
	rec.Call = verifsim.Seq()
	before := verifsim.RaceErrors()
	func() {
		defer func() {
			if p := recover(); p != nil {
				rec.Abort, rec.AbortMsg = classifyPanic(p)
				rec.Out = rec.Abort
			}
		}()
		rec.Out = f()
	}()
	rec.Races = verifsim.RaceErrors() - before
	rec.Ret = verifsim.Seq()
	rec.Done = true
	verifsim.OpEnd()
}

// entropy is the io.Reader handed to uuid.SetRand: bytes come from the run's PRNG.
type entropy struct{}

func (entropy) Read(p []byte) (int, error) {
	for i := 0; i < len(p); i += 8 {
		v := verifsim.Rand()
		for j := 0; j < 8 && i+j < len(p); j++ {
			p[i+j] = byte(v >> (8 * j))
		}
	}
	return len(p), nil
}

var processPrepared bool

func prepareProcess() {
	if processPrepared {
		return
	}
	processPrepared = true
	uuid.SetRand(entropy{})
	core.InstallExitHooks()
}

const baseClock = 1700000000 * 1000000000

// runTasks executes the operation lists as tasks.
func runTasks(cfg verifsim.Config, recs [][]*opRec, mk func(rec *opRec) func() string) verifsim.Result {
	bodies := make([]func(*verifsim.Task), len(recs))
	for ti := range recs {
		list := recs[ti]
		fns := make([]func() string, len(list))
		for i, r := range list {
			fns[i] = mk(r)
		}
		bodies[ti] = func(*verifsim.Task) {
			for i, r := range list {
				if r.Op.J != 0 {
					verifsim.ClockJump(durationOf(r.Op.J))
				}
				runOp(r, fns[i])
			}
		}
	}
	return verifsim.Run(cfg, bodies)
}

func mkRecs(tasks [][]Op) [][]*opRec {
	recs := make([][]*opRec, len(tasks))
	for ti, ops := range tasks {
		for i, op := range ops {
			recs[ti] = append(recs[ti], &opRec{Task: ti, Index: i, Op: op})
		}
	}
	return recs
}

// abortViolations reports panics, exits, hangs.
func abortViolations(res *core.Result, sr verifsim.Result, recs [][]*opRec, prefix string) {
	for _, list := range recs {
		for _, r := range list {
			if r.Abort != "" {
				res.Violate(fmt.Sprintf("%s:%s:%s", prefix, r.Abort, r.Op.K), fmt.Sprintf("operation %s ended in %s: %s", r.Op, r.Abort, firstLine(r.AbortMsg)))
			}
		}
	}
	if sr.Hang {
		res.Violate(prefix+":hang", fmt.Sprintf("step budget exceeded (task %d); the calls do not return", sr.HangTask))
	}
	if sr.Deadlock {
		res.Violate(prefix+":deadlock", fmt.Sprintf("every live task is blocked (task %d)", sr.HangTask))
	}
}

func firstLine(s string) string {
	if i := strings.IndexByte(s, '\n'); i >= 0 {
		return s[:i]
	}
	if len(s) > 300 {
		return s[:300]
	}
	return s
}

func outcomesOf(recs [][]*opRec) []string {
	var out []string
	for ti, list := range recs {
		for i, r := range list {
			out = append(out, fmt.Sprintf("%d.%d:%s=%s", ti, i, r.Op.K, r.Out))
		}
	}
	return out
}

func countOps(recs [][]*opRec) int {
	n := 0
	for _, l := range recs {
		n += len(l)
	}
	return n
}

// ---- canonicalisation ----

var uuidRe = regexp.MustCompile(`[0-9a-f]{8}-[0-9a-f]{4}-[0-9a-f]{4}-[0-9a-f]{4}-[0-9a-f]{12}`)

// canonDocHash hashes a parsed document; generated (entropy dependent) identifiers are masked.
func canonDocHash(d *sbom.Document) string {
	if d == nil {
		return "nil"
	}
	s := gen.Dump(d)
	if strings.Contains(s, "spdxdocs/protobom-") {
		s = uuidRe.ReplaceAllString(s, "UUID")
	}
	return gen.HashHex(s)
}

// CanonJSON decodes JSON, removes the creation timestamp members, sorts every
// array by the canonical encoding of its elements and re-encodes.
func CanonJSON(b []byte) (string, error) {
	var v any
	dec := json.NewDecoder(bytes.NewReader(b))
	dec.UseNumber()
	if err := dec.Decode(&v); err != nil {
		return "", err
	}
	if dec.More() {
		return "", fmt.Errorf("trailing data after JSON value")
	}
	if m, ok := v.(map[string]any); ok {
		if ci, ok := m["creationInfo"].(map[string]any); ok {
			delete(ci, "created")
		}
		if md, ok := m["metadata"].(map[string]any); ok {
			delete(md, "timestamp")
		}
	}
	return canonVal(v), nil
}

func canonVal(v any) string {
	switch x := v.(type) {
	case map[string]any:
		keys := make([]string, 0, len(x))
		for k := range x {
			keys = append(keys, k)
		}
		sort.Strings(keys)
		var sb strings.Builder
		sb.WriteByte('{')
		for _, k := range keys {
			fmt.Fprintf(&sb, "%q:%s,", k, canonVal(x[k]))
		}
		sb.WriteByte('}')
		return sb.String()
	case []any:
		parts := make([]string, len(x))
		for i := range x {
			parts[i] = canonVal(x[i])
		}
		sort.Strings(parts)
		return "[" + strings.Join(parts, ",") + "]"
	default:
		b, _ := json.Marshal(x)
		return string(b)
	}
}

// sink collects written bytes; Close is recorded.
type sink struct {
	bytes.Buffer
	closed bool
}

func (s *sink) Close() error { s.closed = true; return nil }

var _ io.WriteCloser = (*sink)(nil)

func repoFile(rel string) []byte {
	b, err := os.ReadFile(os.Getenv("VERIF_HOME") + "/internal/gen/testdata/" + rel)
	if err != nil {
		panic("concur: " + err.Error())
	}
	return b
}

// generic shrinking over Spec
func (Engine) Shrinks(sc *core.Scenario) []*core.Scenario {
	sp, err := decodeSpec(sc)
	if err != nil {
		return nil
	}
	var out []*core.Scenario
	mk := func(nsp *Spec, sched *verifsim.Config) {
		c := *sc
		c.Spec = encodeSpec(nsp)
		if sched != nil {
			c.Sched = *sched
		}
		out = append(out, &c)
	}
	// drop a task (keep indices of the others stable by emptying it when it is not the last)
	for ti := range sp.Tasks {
		if len(sp.Tasks[ti]) == 0 {
			continue
		}
		n := *sp
		n.Tasks = append([][]Op{}, sp.Tasks...)
		n.Tasks[ti] = nil
		mk(&n, nil)
	}
	// drop one operation
	for ti := range sp.Tasks {
		for i := range sp.Tasks[ti] {
			n := *sp
			n.Tasks = append([][]Op{}, sp.Tasks...)
			n.Tasks[ti] = append(append([]Op{}, sp.Tasks[ti][:i]...), sp.Tasks[ti][i+1:]...)
			mk(&n, nil)
		}
	}
	// schedule: drop halves, then single switches
	if sc.Sched.Policy == "explicit" && len(sc.Sched.Schedule) > 1 {
		s := sc.Sched.Schedule
		cut := func(lo, hi int) {
			c := sc.Sched
			c.Schedule = append(append([]verifsim.Switch{}, s[:lo]...), s[hi:]...)
			mk(sp, &c)
		}
		if len(s) > 4 {
			cut(len(s)/2, len(s))
			cut(1, len(s)/2)
		}
		if len(s) <= 40 {
			for i := 1; i < len(s); i++ {
				cut(i, i+1)
			}
		} else {
			step := len(s) / 16
			for i := 1; i+step <= len(s); i += step {
				cut(i, i+step)
			}
		}
	}
	return out
}

// SoloScenario implements core.CanonEngine for C07: key = "p<pool index>|<format>|<indent>".
func (e Engine) SoloScenario(prop string, verifSeed int64, key string) *core.Scenario {
	if prop != "C07" {
		return nil
	}
	parts := strings.Split(key, "|")
	if len(parts) != 3 {
		return nil
	}
	var pi, indent int
	fmt.Sscanf(parts[0], "p%d", &pi)
	fmt.Sscanf(parts[2], "%d", &indent)
	pool := c07Pool(verifSeed)
	if pi < 0 || pi >= len(pool) {
		return nil
	}
	sp := &Spec{Docs: []string{docToB64(pool[pi])}, Tasks: [][]Op{{{K: "Write", D: 0, A: parts[0], F: parts[1], I: indent}}}}
	sc := &core.Scenario{V: 1, Property: "C07", Engine: "concur", VerifSeed: verifSeed, Run: -1, RunSeed: 1}
	sc.Sched = verifsim.Config{Seed: 1, Policy: "serial", MaxSteps: 3000000, MapOrder: "sorted"}
	if pi >= c07BigStart {
		sc.Sched.MaxSteps = 2000000000
	}
	sc.Spec = encodeSpec(sp)
	return sc
}

func (e Engine) PerProcess(prop string) int {
	switch prop {
	case "C17", "C18", "C07":
		return 1 // package-level state: every run starts from process-initial state
	case "C11":
		return 8 // lazily built package-level tables meet concurrency only in the first scenario of a process
	}
	return 50
}

func (e Engine) Execute(sc *core.Scenario) *core.Result {
	prepareProcess()
	switch sc.Property {
	case "C17":
		return execC17(sc)
	case "C18":
		return execC18(sc)
	case "C11":
		return execC11(sc)
	case "C12":
		return execC12(sc)
	case "C07":
		return execC07(sc)
	}
	return &core.Result{Harness: "concur: no executor for " + sc.Property}
}

func (e Engine) Generate(prop string, verifSeed int64, tier string, idx int) *core.Scenario {
	switch prop {
	case "C17":
		return genC17(verifSeed, tier, idx)
	case "C18":
		return genC18(verifSeed, tier, idx)
	case "C11":
		return genC11(verifSeed, tier, idx)
	case "C12":
		return genC12(verifSeed, tier, idx)
	case "C07":
		return genC07(verifSeed, tier, idx)
	}
	return nil
}

func (e Engine) Runs(prop, tier string) int {
	q := map[string]int{"C17": 9000, "C18": 5000, "C11": 10000, "C12": 1500, "C07": 4000}
	t := map[string]int{"C17": 100000, "C18": 80000, "C11": 200000, "C12": 60000, "C07": 60000}
	if tier == "thorough" {
		return t[prop]
	}
	return q[prop]
}

func (e Engine) Describe(prop string) core.Description {
	d := core.Description{
		Level: "exploration",
		RealCode: []string{"all protobom packages (instrumented at build time: preemption points, sync/os/time/map-range seams)",
			"cyclonedx-go", "tools-golang", "protobuf-go", "logrus", "google/uuid", "encoding/json"},
		Simulated: []string{"scheduling of caller goroutines (seeded cooperative scheduler)", "sync primitives (cooperative wrappers around the real ones)",
			"time.Now", "uuid entropy", "process exit (logrus ExitFunc)", "map iteration order inside protobom packages"},
		Assumptions: []string{
			"context switches happen at statement boundaries of protobom code and at synchronisation operations; torn word writes are not executed but their access pairs are reported by the race detector",
			"the Go race detector (happens-before, with scheduler hand-offs hidden from it) is the data-race oracle",
			"a clean batch is evidence, not proof: schedules and inputs are sampled",
		},
		NoSimTime: "not applicable: no timer or deadline in the code under test; logical steps are reported instead",
	}
	switch prop {
	case "C17":
		d.Rule = "seeded scenarios of 2-4 tasks x 1-4 operations over registries, detection, parsing, writing and constructors; schedule policy per run (random p in {0.01..0.5}, PCT d<=3, operation boundaries); a case is distinct by the hash of (operations, interleaving at in-operation switches) and non-trivial when at least one context switch happened inside an operation interval"
		d.Stubs = []string{"tagged fake serializers/unserializers registered next to the real drivers so that a result shows which driver served it"}
	case "C18":
		d.Rule = "seeded histories of 3-12 constructor calls (every subset of the functional options, values unique per call), observations of every live instance, writes and parses with and without per-call options, over 1-3 tasks, one fresh process per history; reference model: defaults observed from a fresh process (+) the instance's own options; a case is non-trivial when an instance was observed after a later constructor call"
		d.Assumptions = append(d.Assumptions, "UnserializeOptions and SerializeOptions are empty structs: only nil versus set is observable for them")
	case "C11":
		d.Rule = "one shared document from a schema-driven generator (every field of every message type populated or empty by PRNG decision, unsorted roots and edge targets, nested persons) and 1-4 tasks x 1-4 operations from an explicit table of read-only/value-returning operations (second operands: the shared list, a private clone, a private different list); per operation an order-sensitive field-by-field snapshot of every operand before and after; race detector over all interleavings chosen; a case is distinct by (document, operations, interleaving) and non-trivial when single-task (exact attribution of a mutation) or when a context switch happened inside an operation"
		d.Assumptions = append(d.Assumptions, "a method counts as read-only only if it is in the explicit table; exported methods of pkg/sbom that are neither in the table nor in the mutator list are reported in the evidence counters as not exercised")
	case "C12":
		d.Rule = "a heap of live values (nodes, edges, persons, external references, node lists from the schema-driven generator); seeded histories of Copy (all five kinds), Union, Intersect with operands drawn from the heap, and mutate(v, path) where path ranges over every field of every message type at every nesting level (enumerated by reflection: set scalars, overwrite list elements, append, set/overwrite/delete map entries); two shapes: single-task histories of 3-15 steps with the model compared after every step, and two-task runs in which one task mutates every path of derived values while the other reads their sources under the race detector; non-trivial when at least one derived value exists and at least one mutation was applied"
		d.Assumptions = append(d.Assumptions, "the reference model of a slot is proto.Clone of what the implementation returned; union and intersection are not re-implemented (that is C09/C10)",
			"a fresh copy must satisfy Equal where the type has one (Node, Edge, NodeList) and dump equality otherwise (Person, ExternalReference)")
	case "C07":
		d.Rule = "a fixed pool per VERIF_SEED of 24 generated documents plus a hostile pool (absent metadata / node list / both, document decoded from zero bytes, document types without name/description/type, enum numbers outside every table, empty and duplicate identifiers, dangling edge ends and roots, self loops, cycles, no root, many roots, out-of-range timestamps); one fresh process per run; a run is a history of 1-10 writes in any registered format and indentation over 1-3 tasks with simulated-clock jumps (forwards and backwards) and a simulator-chosen map iteration order per range; T1 totality per call, T2 canonical output identical inside the history and (aggregated by the driver over the whole batch) across all histories and equal to a history of length one in a fresh process; non-trivial when the history holds >= 2 serialisations through the same driver family"
		d.Assumptions = append(d.Assumptions, "the totality clause over ALL document values is a statement about inputs; it is decided here only on the documents the histories contain",
			"canonical output: JSON decoded, creation timestamp member removed, every array sorted (weaker than 'set-valued arrays only', can never raise a false alarm)")
		d.NoSimTime = ""
	}
	return d
}
