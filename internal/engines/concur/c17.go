package concur

import (
	"reflect"
	"bytes"
	"encoding/json"
	"fmt"
	"io"
	"math/rand"
	"regexp"
	"sort"
	"strings"
	"time"

	"github.com/anishathalye/porcupine"
	"github.com/protobom/protobom/pkg/formats"
	"github.com/protobom/protobom/pkg/native"
	"github.com/protobom/protobom/pkg/native/unserializers"
	"github.com/protobom/protobom/pkg/reader"
	"github.com/protobom/protobom/pkg/sbom"
	"github.com/protobom/protobom/pkg/storage"
	verifsim "github.com/protobom/protobom/pkg/verifsim"
	"github.com/protobom/protobom/pkg/verifsim/simos"
	"github.com/protobom/protobom/pkg/writer"

	"verif/internal/core"
	"verif/internal/gen"
)

func durationOf(ns int64) time.Duration { return time.Duration(ns) }

const (
	fmtPrivA = "application/x-verif-a+json;version=1"
	fmtPrivB = "application/x-verif-b+json;version=1"
)

var builtinUniverse = []string{string(formats.SPDX23JSON), string(formats.CDX14JSON), string(formats.CDX15JSON), string(formats.CDX13JSON)}

// ---- fake drivers (stubs): pure functions of tag and input ----

type fakeUnserializer struct{ tag string }

func (f *fakeUnserializer) Unserialize(r io.Reader, _ *native.UnserializeOptions, _ interface{}) (*sbom.Document, error) {
	b, err := io.ReadAll(r)
	if err != nil {
		return nil, err
	}
	d := sbom.NewDocument()
	d.Metadata.Id = "fake:" + f.tag
	d.Metadata.Name = gen.HashHex(string(b))
	return d, nil
}

type fakeSerializer struct{ tag string }

func (f *fakeSerializer) Serialize(d *sbom.Document, _ *native.SerializeOptions, _ interface{}) (interface{}, error) {
	id := ""
	if d.Metadata != nil {
		id = d.Metadata.Id
	}
	return map[string]string{"fake": f.tag, "doc": id}, nil
}

func (f *fakeSerializer) Render(doc interface{}, w io.Writer, ro *native.RenderOptions, _ interface{}) error {
	m := doc.(map[string]string)
	_, err := fmt.Fprintf(w, `{"fake":%q,"doc":%q,"indent":%d}`, m["fake"], m["doc"], ro.Indent)
	return err
}

func fakeParseOutcome(tag string, b []byte) string {
	d := sbom.NewDocument()
	d.Metadata.Id = "fake:" + tag
	d.Metadata.Name = gen.HashHex(string(b))
	return "ok:" + canonDocHash(d)
}

func fakeWriteOutcome(tag string, d *sbom.Document, indent int) string {
	id := ""
	if d.Metadata != nil {
		id = d.Metadata.Id
	}
	c, _ := CanonJSON([]byte(fmt.Sprintf(`{"fake":%q,"doc":%q,"indent":%d}`, tag, id, indent)))
	return "ok:" + gen.HashHex(c)
}

// ---- generation ----

func serialisableDoc(r *rand.Rand, tag string, maxNodes int) *sbom.Document {
	return gen.SerialisableDoc(r, tag, maxNodes)
}

func renderWith(format string, d *sbom.Document, indent int) ([]byte, error) {
	return gen.RenderWith(format, d, indent)
}

var enumKeyRe = regexp.MustCompile(`"(relationshipType|primaryPackagePurpose|algorithm|alg|referenceCategory|referenceType|type|scope)":\s*"([A-Za-z_0-9-]+)"`)

var optionalMemberRe = regexp.MustCompile(`(?m)^\s*"(bom-ref|versionInfo|version|purl|cpe|copyrightText|copyright|description|supplier|downloadLocation|licenseConcluded|licenseDeclared)":\s*"[^"\n]*",?\s*\n`)

// dropOptionalMembers removes some optional string members (whole lines of indented output;
// a dangling comma is repaired). Input that is no longer JSON is left as it was.
func dropOptionalMembers(r *rand.Rand, b []byte) []byte {
	out := optionalMemberRe.ReplaceAllFunc(b, func(m []byte) []byte {
		if r.Intn(2) == 0 {
			return m
		}
		return nil
	})
	out = regexp.MustCompile(`,(\s*[}\]])`).ReplaceAll(out, []byte("$1"))
	var v any
	if json.Unmarshal(out, &v) != nil {
		return b
	}
	return out
}

// varyEnumCase rewrites the values of enumeration-like members in other letter cases.
func varyEnumCase(r *rand.Rand, b []byte) []byte {
	return enumKeyRe.ReplaceAllFunc(b, func(m []byte) []byte {
		sub := enumKeyRe.FindSubmatch(m)
		if r.Intn(3) == 0 {
			return m
		}
		v := string(sub[2])
		if r.Intn(8) == 0 {
			return []byte(fmt.Sprintf("%q: %q", sub[1], "X-UNKNOWN-"+v)) // a value no table knows
		}
		switch r.Intn(3) {
		case 0:
			v = strings.ToLower(v)
		case 1:
			v = strings.ToUpper(v)
		default:
			v = strings.ToUpper(v[:1]) + strings.ToLower(v[1:])
		}
		return []byte(fmt.Sprintf("%q: %q", sub[1], v))
	})
}

const crossLineTV = "# generated tag-value fragment\nDataLicense: CC0-1.0\nSPDXVersion:\n  \"SPDX-2.3\"\nSPDXID: SPDXRef-DOCUMENT\n"

func genC17(verifSeed int64, tier string, idx int) *core.Scenario {
	seed := core.SplitMix(uint64(verifSeed), uint64(idx)*2654435761+17)
	r := rand.New(rand.NewSource(int64(seed)))
	sp := &Spec{PreInit: r.Intn(2) == 0}
	ntasks := 2 + r.Intn(3)
	maxNodes := 4
	if tier == "thorough" && r.Intn(4) == 0 {
		maxNodes = 12
	}
	// per task one private document and stream
	for t := 0; t < ntasks; t++ {
		d := serialisableDoc(r, fmt.Sprintf("t%d", t), maxNodes)
		sp.Docs = append(sp.Docs, docToB64(d))
		var b []byte
		switch r.Intn(12) {
		case 10:
			b = repoFile("bom-1.4.json") // documents from other producers: nested components, no bom-ref, services ...
		case 11:
			b = repoFile("bom-1.5.json")
		case 0:
			b = repoFile("minified.cdx.json")
		case 1:
			b = repoFile("pause.spdx")
		case 2, 3:
			b = []byte(crossLineTV)
		case 4:
			b = []byte(`{"not":"an sbom"}`)
		default:
			f := builtinUniverse[r.Intn(3)]
			var err error
			b, err = gen.RenderSafe(f, d, r.Intn(5))
			if err != nil {
				b = repoFile("bom-1.4.json") // the serializer refused a workload document: fixed input instead
			}
			if r.Intn(2) == 0 {
				b = varyEnumCase(r, b) // producers spell enumerated values in other cases
			}
			if r.Intn(3) == 0 {
				b = dropOptionalMembers(r, b) // ... and leave optional members out (components without bom-ref, packages without version)
			}
		}
		sp.Streams = append(sp.Streams, b64(b))
	}
	allFmts := append(append([]string{}, builtinUniverse...), fmtPrivA, fmtPrivB)
	tags := []string{"fakeA", "fakeB", "fakeC"}
	// swarm: per run a subset of operation kinds is enabled
	kinds := []string{"RNew", "WNew", "RReg", "RUnreg", "RGet", "WReg", "WUnreg", "WGet", "Sniff", "Parse", "Write", "SniffFile", "ParseFile", "WriteFile"}
	weights := make([]int, len(kinds))
	for i := range weights {
		if r.Intn(3) != 0 {
			weights[i] = 1 + r.Intn(4)
		}
	}
	replacing := false
	if r.Intn(2) == 0 { // focus runs: one family of entry points only, so that its calls meet each other
		for i := range weights {
			weights[i] = 0
		}
		fk := r.Intn(11)
		if fk >= 9 {
			fk -= 2 // the two replacing-a-driver shapes get a double share
		}
		switch fk {
		case 7: // replacing a driver while documents of that format are parsed through one shared reader
			weights[2], weights[9], weights[12] = 2, 4, 1
			replacing = true
		case 8: // replacing a driver while documents are written in that format through one shared writer
			weights[5], weights[10], weights[13] = 2, 4, 1
			replacing = true
		case 4: // parsing only (streams and files)
			weights[9], weights[12] = 3, 2
		case 5: // writing only
			weights[10], weights[13] = 3, 2
		case 6: // detection only
			weights[8], weights[11] = 3, 2
		case 0:
			weights[2], weights[3], weights[4] = 2, 2, 4
		case 1:
			weights[5], weights[6], weights[7] = 2, 2, 4
		case 2:
			weights[8], weights[9] = 3, 2
		case 3:
			weights[0], weights[1] = 2, 2
		}
	}
	total := 0
	for _, w := range weights {
		total += w
	}
	if total == 0 {
		weights[4], weights[3] = 1, 1
		total = 2
	}
	pick := func() string {
		k := r.Intn(total)
		for i, w := range weights {
			if k < w {
				return kinds[i]
			}
			k -= w
		}
		return kinds[0]
	}
	// the registry ops of one run concentrate on few formats so that they meet
	hot := []string{allFmts[r.Intn(len(allFmts))], allFmts[r.Intn(len(allFmts))]}
	for t := 0; t < ntasks; t++ {
		nops := 1 + r.Intn(4)
		if replacing {
			nops = 2 + r.Intn(3)
		}
		var ops []Op
		for i := 0; i < nops; i++ {
			k := pick()
			op := Op{K: k}
			f := hot[r.Intn(len(hot))]
			if r.Intn(4) == 0 {
				f = allFmts[r.Intn(len(allFmts))]
			}
			if replacing {
				f = hot[0]
			}
			switch k {
			case "RNew":
				for _, o := range []string{"fmtopts", "unserialize", "retrieve", "sniffer", "store"} {
					if r.Intn(3) == 0 {
						op.Opts = append(op.Opts, o)
					}
				}
			case "WNew":
				for _, o := range []string{"format", "render", "serialize", "fmtopts", "storeopts", "store"} {
					if r.Intn(3) == 0 {
						op.Opts = append(op.Opts, o)
					}
				}
				op.F = builtinUniverse[r.Intn(len(builtinUniverse))]
			case "RReg", "WReg":
				op.F, op.T = f, tags[r.Intn(len(tags))]
			case "RUnreg", "WUnreg", "RGet", "WGet":
				op.F = f
			case "Sniff", "SniffFile":
				op.S = t
			case "Parse", "ParseFile":
				op.S = t
				if r.Intn(2) == 0 {
					op.F = f
				}
			case "Write", "WriteFile":
				op.D, op.F, op.I = t, f, r.Intn(5)
			}
			switch k {
			case "Sniff", "SniffFile", "Parse", "ParseFile", "Write", "WriteFile":
				// through one Reader / Writer / Sniffer object that all tasks share (built before the fork in pre-initialised runs)
				if r.Intn(3) == 0 || (replacing && r.Intn(2) == 0) {
					op.A = "shared"
				}
				if replacing && (k == "Parse" || k == "ParseFile") {
					op.F = f
				}
				// format options for the driver (a map[string]string whose keys come from the driver packages themselves)
				if k != "Sniff" && k != "SniffFile" && r.Intn(4) == 0 {
					op.Opts = gen.FormatOptionSpec(r)
				}
			}
			ops = append(ops, op)
		}
		sp.Tasks = append(sp.Tasks, ops)
	}
	if replacing {
		sp.PreInit = true
	}
	sc := &core.Scenario{V: 1, Property: "C17", Engine: "concur", VerifSeed: verifSeed, Run: idx, RunSeed: seed}
	sc.Sched = genSched(r, seed)
	sc.Spec = encodeSpec(sp)
	return sc
}

// genSched draws the schedule policy of a run (swarm style).
func genSched(r *rand.Rand, seed uint64) verifsim.Config {
	c := verifsim.Config{Seed: seed, MaxSteps: 3000000, MapOrder: "random"}
	switch k := r.Intn(10); {
	case k < 5:
		c.Policy = "random"
		c.P = []float64{0.01, 0.05, 0.2, 0.5}[r.Intn(4)]
	case k < 8:
		c.Policy = "pct"
		c.PCTDepth = 1 + r.Intn(3)
		c.EstSteps = []uint64{50, 300, 2000, 10000}[r.Intn(4)]
	default:
		c.Policy = "opbound"
	}
	if r.Intn(5) == 0 {
		c.MapOrder = "sorted"
	}
	return c
}

// ---- execution ----

type c17env struct {
	sp        *Spec
	docs      []*sbom.Document
	streams   [][]byte
	soloSniff []string            // per stream: "fmt:<f>" | "err"
	soloParse map[string][]string // builtin format -> per stream outcome
	rPtr      map[native.Unserializer]string
	initR     map[string]string // initial registries: format -> tag
	initW     map[string]string
	disk      *simos.Disk
	builtinU  map[string]native.Unserializer
	sharedR   *reader.Reader // objects used by several tasks at once (nil: every call builds its own)
	sharedW   *writer.Writer
	sharedS   *formats.Sniffer
}

func sniffOutcome(f formats.Format, err error) string {
	switch {
	case err != nil && f != "":
		return "both:" + string(f)
	case err != nil:
		return "err"
	case f == "":
		return "neither"
	}
	return "fmt:" + string(f)
}

func parseOutcome(d *sbom.Document, err error) string {
	switch {
	case err != nil && d != nil:
		return "both"
	case err != nil:
		return "err"
	case d == nil:
		return "neither"
	}
	return "ok:" + canonDocHash(d)
}

func writeOutcome(s *sink, err error) string {
	if err != nil {
		return "err"
	}
	c, cerr := CanonJSON(s.Bytes())
	if cerr != nil {
		return "ok:notjson:" + gen.HashHex(s.String())
	}
	return "ok:" + gen.HashHex(c)
}

// identifyUnserializer names a driver object: a fake by its tag, a built-in by pointer identity with what
// the registry holds after the join, otherwise by its type and (CycloneDX) its version field.
func (env *c17env) identifyUnserializer(u native.Unserializer) string {
	if f, ok := u.(*fakeUnserializer); ok {
		return f.tag
	}
	if t, ok := env.rPtr[u]; ok {
		return t
	}
	switch u.(type) {
	case *unserializers.SPDX23:
		return "builtin:" + string(formats.SPDX23JSON)
	case *unserializers.CDX:
		if v := reflect.ValueOf(u).Elem().FieldByName("version"); v.IsValid() && v.Kind() == reflect.String {
			return "builtin:application/vnd.cyclonedx+json;version=" + v.String()
		}
	}
	return fmt.Sprintf("unknown:%T", u)
}

func identifySerializer(s native.Serializer) string {
	if s == nil {
		return "nil"
	}
	if f, ok := s.(*fakeSerializer); ok {
		return f.tag
	}
	// behavioural identification: what does it declare on a tiny document?
	d := sbom.NewDocument()
	d.Metadata.Id = "urn:uuid:00000000-0000-0000-0000-000000000001"
	d.Metadata.Name = "probe"
	n := &sbom.Node{Id: "SPDXRef-probe", Name: "probe", Type: sbom.Node_PACKAGE}
	d.NodeList.AddRootNode(n)
	var out string
	func() {
		defer func() {
			if recover() != nil {
				out = fmt.Sprintf("unknown:%T", s)
			}
		}()
		nd, err := s.Serialize(d, &native.SerializeOptions{}, nil)
		if err != nil {
			out = fmt.Sprintf("unknown:%T", s)
			return
		}
		var buf bytes.Buffer
		if err := s.Render(nd, &buf, &native.RenderOptions{Indent: 0}, nil); err != nil {
			out = fmt.Sprintf("unknown:%T", s)
			return
		}
		var decl struct {
			BomFormat   string `json:"bomFormat"`
			SpecVersion string `json:"specVersion"`
			SpdxVersion string `json:"spdxVersion"`
		}
		json.Unmarshal(buf.Bytes(), &decl)
		switch {
		case strings.EqualFold(decl.BomFormat, "CycloneDX"):
			out = "builtin:application/vnd.cyclonedx+json;version=" + decl.SpecVersion
		case strings.HasPrefix(decl.SpdxVersion, "SPDX-"):
			out = "builtin:text/spdx+json;version=" + strings.TrimPrefix(decl.SpdxVersion, "SPDX-")
		default:
			out = fmt.Sprintf("unknown:%T", s)
		}
	}()
	return out
}

// Probe reports which universe formats have a driver in a fresh process.
type ProbeInfo struct {
	R []string `json:"r"`
	W []string `json:"w"`
}

func ProbeRegistries() ProbeInfo {
	var p ProbeInfo
	for _, f := range append(append([]string{}, builtinUniverse...), fmtPrivA, fmtPrivB) {
		if u, err := reader.GetFormatUnserializer(formats.Format(f)); err == nil && u != nil {
			p.R = append(p.R, f)
		}
		if s, err := writer.GetFormatSerializer(formats.Format(f)); err == nil && s != nil {
			p.W = append(p.W, f)
		}
	}
	return p
}

var probeCache *ProbeInfo

func probeInfo() ProbeInfo {
	if probeCache != nil {
		return *probeCache
	}
	var p ProbeInfo
	if err := json.Unmarshal([]byte(core.ProbeJSON()), &p); err != nil {
		panic("concur: registry probe missing: " + err.Error())
	}
	probeCache = &p
	return p
}

func execC17(sc *core.Scenario) *core.Result {
	res := &core.Result{}
	sp, err := decodeSpec(sc)
	if err != nil {
		res.Harness = err.Error()
		return res
	}
	env := &c17env{sp: sp, soloParse: map[string][]string{}, rPtr: map[native.Unserializer]string{}, initR: map[string]string{}, initW: map[string]string{}}
	for _, d := range sp.Docs {
		env.docs = append(env.docs, docFromB64(d))
	}
	for _, s := range sp.Streams {
		env.streams = append(env.streams, unb64(s))
	}
	verifsim.ClockSet(baseClock)

	// ---- solo phase (sequential, before any task exists) ----
	pi := probeInfo()
	for _, f := range pi.R {
		env.initR[f] = "builtin:" + f
	}
	for _, f := range pi.W {
		env.initW[f] = "builtin:" + f
	}
	// The reader's registry is NOT touched before the concurrent phase (a look-up here would complete any
	// first-use initialisation alone): the built-in driver objects are collected after the join.
	builtinU := map[string]native.Unserializer{}
	env.builtinU = builtinU
	collectBuiltins := func() {
		for _, f := range pi.R {
			u, err := reader.GetFormatUnserializer(formats.Format(f))
			if _, fake := u.(*fakeUnserializer); err != nil || u == nil || fake {
				// replaced or removed during the run: a fresh object of the same kind serves as reference
				ff := formats.Format(f)
				if ff.Type() == formats.CDXFORMAT {
					u = unserializers.NewCDX(ff.Version(), formats.JSON)
				} else {
					u = unserializers.NewSPDX23()
				}
			} else if _, dup := env.rPtr[u]; !dup {
				env.rPtr[u] = "builtin:" + f
			}
			builtinU[f] = u
		}
	}
	// The reference results (what each built-in driver returns for each stream, what detection returns)
	// are computed AFTER the concurrent phase, from the driver objects captured here: computing them
	// first would warm every lazily filled cache with exactly the inputs of the run, and the
	// concurrent phase would only ever read them.
	soloTables := func() {
		for _, f := range pi.R {
			u := builtinU[f]
			for _, b := range env.streams {
				var out string
				func() {
					defer func() {
						if p := recover(); p != nil {
							out = "panic"
						}
					}()
					d, err := u.Unserialize(bytes.NewReader(b), &native.UnserializeOptions{}, nil)
					out = parseOutcome(d, err)
				}()
				env.soloParse[f] = append(env.soloParse[f], out)
			}
		}
		for _, b := range env.streams {
			var out string
			func() {
				defer func() {
					if p := recover(); p != nil {
						out = "panic"
					}
				}()
				f, err := (&formats.Sniffer{}).SniffReader(bytes.NewReader(b))
				out = sniffOutcome(f, err)
			}()
			env.soloSniff = append(env.soloSniff, out)
		}
	}
	if sp.PreInit {
		writer.New()
		env.sharedR, env.sharedW, env.sharedS = reader.New(), writer.New(), &formats.Sniffer{}
	}

	// the file entry points (ParseFile, SniffFile, WriteFile) work on a simulated disk
	disk := simos.NewDisk(1000)
	disk.Quiet = true
	for i, b := range env.streams {
		disk.Put(fmt.Sprintf("/in/s%d", i), b, 0o644, 1000)
	}
	disk.PutDir("/out", 0o755, 1000)
	env.disk = disk
	simos.Mount(disk)
	defer simos.Mount(nil)

	// ---- concurrent phase ----
	recs := mkRecs(sp.Tasks)
	core.RaceMark()
	sr := runTasks(sc.Sched, recs, env.mkOp)
	nraces := core.RaceDelta()
	res.Sched = sr
	res.Ops = countOps(recs)
	core.AttachRaces(res, nraces)
	abortViolations(res, sr, recs, "abort")

	// post-join identification of the drivers returned by WGet and RGet
	collectBuiltins()
	for _, list := range recs {
		for _, r := range list {
			if r.Op.K == "WGet" && r.Done && r.Abort == "" {
				if s, ok := r.aux.(native.Serializer); ok {
					r.Out = "drv:" + identifySerializer(s)
				}
			}
			if r.Op.K == "RGet" && r.Done && r.Abort == "" {
				if u, ok := r.aux.(native.Unserializer); ok {
					r.Out = "drv:" + env.identifyUnserializer(u)
				}
			}
		}
	}

	// ---- return values: linearizability against the registry model ----
	simos.Mount(nil)
	soloTables()
	if !sr.Hang && !sr.Deadlock {
		env.checkLin(res, recs)
	}

	res.Outcomes = outcomesOf(recs)
	h := sr.LogHash
	for _, o := range res.Outcomes {
		h = h*1099511628211 ^ core.HashStr(o)
	}
	res.LogHash = fmt.Sprintf("%016x", h)
	res.Nontrivial = sr.InOpSw > 0
	res.Key = fmt.Sprintf("%016x-%016x", core.HashStr(string(sc.Spec)), sr.IlvHash)
	if sc.Run%97 == 0 {
		res.Sample = map[string]any{"run": sc.Run, "policy": sc.Sched.Policy, "tasks": sp.Tasks, "outcomes": res.Outcomes, "switches": sr.Switches, "in_op_switches": sr.InOpSw}
	}
	return res
}

func (env *c17env) mkOp(rec *opRec) func() string {
	op := rec.Op
	switch op.K {
	case "RNew":
		return func() string {
			var opts []reader.ReaderOption
			for _, o := range op.Opts {
				switch o {
				case "fmtopts":
					opts = append(opts, reader.WithFormatOptions(fmt.Sprintf("key-%d", rec.Task), rec.Index))
				case "unserialize":
					opts = append(opts, reader.WithUnserializeOptions(&native.UnserializeOptions{}))
				case "retrieve":
					opts = append(opts, reader.WithRetrieveOptions(&storage.RetrieveOptions{}))
				case "sniffer":
					opts = append(opts, reader.WithSniffer(&formats.Sniffer{}))
				case "store":
					opts = append(opts, reader.WithStoreRetriever(storage.NewFileSystem()))
				}
			}
			r := reader.New(opts...)
			if r == nil {
				return "nil"
			}
			return "ok"
		}
	case "WNew":
		return func() string {
			var opts []writer.WriterOption
			for _, o := range op.Opts {
				switch o {
				case "format":
					opts = append(opts, writer.WithFormat(formats.Format(op.F)))
				case "render":
					opts = append(opts, writer.WithRenderOptions(&native.RenderOptions{Indent: rec.Task + 1}))
				case "serialize":
					opts = append(opts, writer.WithSerializeOptions(&native.SerializeOptions{}))
				case "fmtopts":
					opts = append(opts, writer.WithFormatOptions(fmt.Sprintf("key-%d", rec.Task), rec.Index))
				case "storeopts":
					opts = append(opts, writer.WithStoreOptions(&storage.StoreOptions{NoClobber: rec.Task%2 == 0}))
				case "store":
					opts = append(opts, writer.WithStoreRetriever(storage.NewFileSystem()))
				}
			}
			w := writer.New(opts...)
			if w == nil {
				return "nil"
			}
			return "ok"
		}
	case "RReg":
		fu := &fakeUnserializer{tag: op.T} // built before the tasks are forked
		return func() string {
			reader.RegisterUnserializer(formats.Format(op.F), fu)
			return "ok"
		}
	case "RUnreg":
		return func() string { reader.UnregisterUnserializer(formats.Format(op.F)); return "ok" }
	case "RGet":
		return func() string {
			u, err := reader.GetFormatUnserializer(formats.Format(op.F))
			switch {
			case err != nil && u != nil:
				return "both"
			case err != nil:
				return "err"
			case u == nil:
				return "nilnil"
			}
			rec.aux = u // identified after the join
			return "drv:?"
		}
	case "WReg":
		fs := &fakeSerializer{tag: op.T}
		return func() string {
			writer.RegisterSerializer(formats.Format(op.F), fs)
			return "ok"
		}
	case "WUnreg":
		return func() string { writer.UnregisterSerializer(formats.Format(op.F)); return "ok" }
	case "WGet":
		return func() string {
			s, err := writer.GetFormatSerializer(formats.Format(op.F))
			switch {
			case err != nil && s != nil:
				return "both"
			case err != nil:
				return "err"
			case s == nil:
				return "nilnil"
			}
			rec.aux = s
			return "drv:?"
		}
	case "Sniff":
		b := env.streams[op.S]
		return func() string {
			f, err := env.snifferFor(op).SniffReader(bytes.NewReader(b))
			return sniffOutcome(f, err)
		}
	case "Parse":
		b := env.streams[op.S]
		return func() string {
			r := env.readerFor(op)
			d, err := r.ParseStreamWithOptions(bytes.NewReader(b), readerOpts(op))
			return parseOutcome(d, err)
		}
	case "SniffFile":
		path := fmt.Sprintf("/in/s%d", op.S)
		return func() string {
			f, err := env.snifferFor(op).SniffFile(path)
			return sniffOutcome(f, err)
		}
	case "ParseFile":
		path := fmt.Sprintf("/in/s%d", op.S)
		return func() string {
			r := env.readerFor(op)
			if op.F == "" {
				d, err := r.ParseFile(path)
				return parseOutcome(d, err)
			}
			d, err := r.ParseFileWithOptions(path, readerOpts(op))
			return parseOutcome(d, err)
		}
	case "WriteFile":
		d := env.docs[op.D]
		// independent targets that share a directory and a stem (release0.json, release0.spdx, ...)
		path := fmt.Sprintf("/out/release%d.%s", rec.Index%2, []string{"json", "spdx", "cdx", "xml", "txt", "sbom"}[rec.Task%6])
		if rec.Index >= 2 {
			path = fmt.Sprintf("/out/t%d_%d.json", rec.Task, rec.Index)
		}
		return func() string {
			w := env.writerFor(op)
			err := w.WriteFileWithOptions(d, path, writerOpts(op))
			s := &sink{}
			if data, _, _, ok := env.disk.Lookup(path); ok {
				s.Write(data)
			}
			return writeOutcome(s, err)
		}
	case "Write":
		d := env.docs[op.D]
		return func() string {
			w := env.writerFor(op)
			s := &sink{}
			err := w.WriteStreamWithOptions(d, s, writerOpts(op))
			return writeOutcome(s, err)
		}
	}
	return func() string { return "unknown-op" }
}

// per-call options; format options (if the op has any) go to the built-in drivers under the keys the
// reader and writer look them up by
func readerOpts(op Op) *reader.Options {
	o := &reader.Options{Format: formats.Format(op.F), UnserializeOptions: &native.UnserializeOptions{}}
	if m := gen.FormatOptionMap(op.Opts); m != nil {
		o.SetFormatOptions("*unserializers.CDX", m)
		o.SetFormatOptions("*unserializers.SPDX23", m)
	}
	return o
}

func writerOpts(op Op) *writer.Options {
	o := &writer.Options{Format: formats.Format(op.F), RenderOptions: &native.RenderOptions{Indent: op.I}, SerializeOptions: &native.SerializeOptions{}}
	if m := gen.FormatOptionMap(op.Opts); m != nil {
		o.SetFormatOptions("*serializers.CDX", m)
		o.SetFormatOptions("*serializers.SPDX23", m)
	}
	return o
}

func (env *c17env) readerFor(op Op) *reader.Reader {
	if op.A == "shared" && env.sharedR != nil {
		return env.sharedR
	}
	return reader.New()
}

func (env *c17env) writerFor(op Op) *writer.Writer {
	if op.A == "shared" && env.sharedW != nil {
		return env.sharedW
	}
	return writer.New()
}

func (env *c17env) snifferFor(op Op) *formats.Sniffer {
	if op.A == "shared" && env.sharedS != nil {
		return env.sharedS
	}
	return &formats.Sniffer{}
}

// ---- the sequential model (Appendix B of DESIGN.md) ----

type regState struct{ R, W map[string]string }

func (s regState) key() string {
	var parts []string
	for k, v := range s.R {
		parts = append(parts, "R "+k+"\x00"+v)
	}
	for k, v := range s.W {
		parts = append(parts, "W "+k+"\x00"+v)
	}
	sort.Strings(parts)
	return strings.Join(parts, "\n")
}

func parseState(k string) regState {
	s := regState{map[string]string{}, map[string]string{}}
	if k == "" {
		return s
	}
	for _, ln := range strings.Split(k, "\n") {
		i := strings.Index(ln, "\x00")
		if ln[0] == 'R' {
			s.R[ln[2:i]] = ln[i+1:]
		} else {
			s.W[ln[2:i]] = ln[i+1:]
		}
	}
	return s
}

func (env *c17env) soloParseOf(tag string, s int, opts []string) string {
	if strings.HasPrefix(tag, "builtin:") {
		f := strings.TrimPrefix(tag, "builtin:")
		if len(opts) == 0 {
			return env.soloParse[f][s]
		}
		// the same driver object, alone, with the same format options
		key := fmt.Sprintf("P|%s|%d|%v", f, s, opts)
		if v, ok := soloWriteCache[key]; ok {
			return v
		}
		out := "panic"
		func() {
			defer func() { recover() }()
			d, err := env.builtinU[f].Unserialize(bytes.NewReader(env.streams[s]), &native.UnserializeOptions{}, gen.FormatOptionMap(opts))
			out = parseOutcome(d, err)
		}()
		soloWriteCache[key] = out
		return out
	}
	return fakeParseOutcome(tag, env.streams[s])
}

var soloWriteCache = map[string]string{}

func (env *c17env) soloWriteOf(tag string, d, indent int, opts []string) string {
	if !strings.HasPrefix(tag, "builtin:") {
		return fakeWriteOutcome(tag, env.docs[d], indent)
	}
	key := fmt.Sprintf("%s|%d|%d|%v", tag, d, indent, opts)
	if v, ok := soloWriteCache[key]; ok {
		return v
	}
	var out string
	func() {
		defer func() {
			if recover() != nil {
				out = "panic"
			}
		}()
		var fo interface{}
		if m := gen.FormatOptionMap(opts); m != nil {
			fo = m
		}
		b, err := gen.RenderWithFO(strings.TrimPrefix(tag, "builtin:"), env.docs[d], indent, fo)
		s := &sink{}
		s.Write(b)
		out = writeOutcome(s, err)
	}()
	soloWriteCache[key] = out
	return out
}

// step applies op to the state and says whether out is what a sequential execution returns.
func (env *c17env) step(st regState, op Op, out string) (bool, regState) {
	switch op.K { // the file entry points are the stream entry points behind an open/create
	case "SniffFile":
		op.K = "Sniff"
	case "ParseFile":
		op.K = "Parse"
	case "WriteFile":
		op.K = "Write"
	}
	switch op.K {
	case "RNew", "WNew":
		return true, st
	case "RReg":
		st.R[op.F] = op.T
		return true, st
	case "RUnreg":
		delete(st.R, op.F)
		return true, st
	case "WReg":
		st.W[op.F] = op.T
		return true, st
	case "WUnreg":
		delete(st.W, op.F)
		return true, st
	case "RGet":
		if t, ok := st.R[op.F]; ok {
			return out == "drv:"+t, st
		}
		return out == "err", st
	case "WGet":
		if t, ok := st.W[op.F]; ok && op.F != "" {
			return out == "drv:"+t, st
		}
		return out == "err", st
	case "Sniff":
		return out == env.soloSniff[op.S], st
	case "Parse":
		g := op.F
		if g == "" {
			ss := env.soloSniff[op.S]
			if !strings.HasPrefix(ss, "fmt:") {
				return out == "err", st
			}
			g = strings.TrimPrefix(ss, "fmt:")
		}
		t, ok := st.R[g]
		if !ok {
			return out == "err", st
		}
		return out == env.soloParseOf(t, op.S, op.Opts), st
	case "Write":
		t, ok := st.W[op.F]
		if !ok || op.F == "" {
			return out == "err", st
		}
		return out == env.soloWriteOf(t, op.D, op.I, op.Opts), st
	}
	return false, st
}

func (env *c17env) checkLin(res *core.Result, recs [][]*opRec) {
	init := regState{map[string]string{}, map[string]string{}}
	for k, v := range env.initR {
		init.R[k] = v
	}
	for k, v := range env.initW {
		init.W[k] = v
	}
	soloWriteCache = map[string]string{}
	model := porcupine.Model{
		Init: func() interface{} { return init.key() },
		Step: func(state, input, output interface{}) (bool, interface{}) {
			st := parseState(state.(string))
			ok, ns := env.step(st, input.(Op), output.(string))
			return ok, ns.key()
		},
		Equal: func(a, b interface{}) bool { return a.(string) == b.(string) },
		DescribeOperation: func(input, output interface{}) string {
			return fmt.Sprintf("%s -> %s", input.(Op), output.(string))
		},
	}
	var ops []porcupine.Operation
	for ti, list := range recs {
		for _, r := range list {
			if !r.Done || r.Abort != "" {
				continue // aborts are reported separately
			}
			ops = append(ops, porcupine.Operation{ClientId: ti, Input: r.Op, Call: int64(r.Call), Output: r.Out, Return: int64(r.Ret)})
		}
	}
	if res.Extra == nil {
		res.Extra = map[string]int{}
	}
	res.Extra["porcupine_history_ops"] += len(ops)
	verdict := porcupine.CheckOperationsTimeout(model, ops, 30*time.Second)
	switch verdict {
	case porcupine.Ok:
		res.Extra["porcupine_ok"]++
	case porcupine.Unknown:
		res.Extra["porcupine_unknown"]++
	case porcupine.Illegal:
		res.Extra["porcupine_illegal"]++
		kind, detail := env.explainIllegal(recs)
		res.Violate("lin:"+kind, "the recorded results are not those of any sequential order of the same calls: "+detail)
	}
	// abstract states: the registry contents after each operation in return order
	var flat []*opRec
	for _, list := range recs {
		for _, r := range list {
			if r.Done {
				flat = append(flat, r)
			}
		}
	}
	sort.Slice(flat, func(i, j int) bool { return flat[i].Ret < flat[j].Ret })
	st := parseState(init.key())
	for _, r := range flat {
		_, st = env.step(st, r.Op, r.Out)
		res.States = append(res.States, gen.HashHex(st.key()))
	}
}

// explainIllegal names the smallest impossible observation it can find: an
// operation whose result is not produced from ANY registry state reachable by
// the run's registry operations.
func (env *c17env) explainIllegal(recs [][]*opRec) (kind, detail string) {
	// candidate tags per format: initial tag, every tag registered in the run, or absent
	for _, list := range recs {
		for _, r := range list {
			if !r.Done || r.Abort != "" {
				continue
			}
			possible := false
			for _, st := range env.candidateStates(recs, r.Op) {
				if ok, _ := env.step(st, r.Op, r.Out); ok {
					possible = true
					break
				}
			}
			if !possible {
				cls := r.Out
				if i := strings.IndexByte(cls, ':'); i >= 0 {
					cls = cls[:i]
				}
				return r.Op.K + ":" + cls, fmt.Sprintf("%s returned %s, which no registry state of this run explains", r.Op, r.Out)
			}
		}
	}
	var kinds []string
	seen := map[string]bool{}
	for _, list := range recs {
		for _, r := range list {
			if !seen[r.Op.K] {
				seen[r.Op.K] = true
				kinds = append(kinds, r.Op.K)
			}
		}
	}
	sort.Strings(kinds)
	return "order", "(operation kinds " + strings.Join(kinds, ",") + ") each result is possible alone but no single order explains all of them: " + strings.Join(outcomesOf(recs), " ")
}

func (env *c17env) candidateStates(recs [][]*opRec, op Op) []regState {
	f := op.F
	if (op.K == "Parse" || op.K == "ParseFile") && f == "" {
		f = strings.TrimPrefix(env.soloSniff[op.S], "fmt:")
	}
	tagsR := map[string]bool{}
	tagsW := map[string]bool{}
	if t, ok := env.initR[f]; ok {
		tagsR[t] = true
	}
	if t, ok := env.initW[f]; ok {
		tagsW[t] = true
	}
	for _, list := range recs {
		for _, r := range list {
			if r.Op.F == f && r.Op.K == "RReg" {
				tagsR[r.Op.T] = true
			}
			if r.Op.F == f && r.Op.K == "WReg" {
				tagsW[r.Op.T] = true
			}
		}
	}
	var out []regState
	out = append(out, regState{map[string]string{}, map[string]string{}})
	for t := range tagsR {
		out = append(out, regState{map[string]string{f: t}, map[string]string{}})
	}
	for t := range tagsW {
		out = append(out, regState{map[string]string{}, map[string]string{f: t}})
	}
	return out
}
