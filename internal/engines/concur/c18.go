package concur

import (
	"bytes"
	"encoding/json"
	"fmt"
	"io"
	"math/rand"
	"sort"
	"strings"

	"github.com/protobom/protobom/pkg/formats"
	"github.com/protobom/protobom/pkg/native"
	"github.com/protobom/protobom/pkg/native/serializers"
	"github.com/protobom/protobom/pkg/reader"
	"github.com/protobom/protobom/pkg/sbom"
	"github.com/protobom/protobom/pkg/storage"
	verifsim "github.com/protobom/protobom/pkg/verifsim"
	"github.com/protobom/protobom/pkg/verifsim/simos"
	"github.com/protobom/protobom/pkg/writer"

	"verif/internal/core"
	"verif/internal/gen"
)

// C18: configuration of a reader/writer = library defaults (+) own constructor options.
//
// Snapshot of an instance: field -> rendered value. The defaults are not
// copied from the source: they are what New() returns as the first call of a
// fresh process (the probe).

type snap map[string]string

func (s snap) clone() snap {
	c := snap{}
	for k, v := range s {
		c[k] = v
	}
	return c
}

func (s snap) String() string {
	keys := make([]string, 0, len(s))
	for k := range s {
		keys = append(keys, k)
	}
	sort.Strings(keys)
	var sb strings.Builder
	for _, k := range keys {
		fmt.Fprintf(&sb, "%s=%s;", k, s[k])
	}
	return sb.String()
}

func anyStr(v any) string {
	if v == nil {
		return "<nil>"
	}
	if p, ok := v.(*serializers.SPDX3Options); ok && p != nil {
		return fmt.Sprintf("&%v", *p)
	}
	return fmt.Sprintf("%v", v)
}

// format options for the BUILT-IN drivers, under the keys reader and writer look them up by, with values of
// the types a driver might understand (what a driver makes of them is its business; the instance's
// configuration stays what the constructor made it)
var c18RealWKeys = []string{"*serializers.SPDX23", "*serializers.CDX"}
var c18RealRKeys = []string{"*unserializers.SPDX23", "*unserializers.CDX"}

func c18RealValue(i int) any {
	switch i % 6 {
	case 0:
		return serializers.SPDX3Options{Indent: 2 + i%5}
	case 1:
		return &serializers.SPDX3Options{Indent: 2 + i%5}
	case 2, 3:
		keys, dict := gen.DriverDict()
		m := map[string]string{"indent": fmt.Sprint(2 + i%5)}
		for j, k := range keys {
			m[k] = []string{"vendor-a", "1", "true", "3"}[(i+j)%4]
		}
		if len(dict) > 0 {
			m[dict[i%len(dict)]] = "1"
		}
		return m
	case 4:
		return native.RenderOptions{Indent: 3 + i%4}
	}
	return fmt.Sprintf("text-%d", i)
}

func storageSnap(st storage.StoreRetriever) string {
	switch b := st.(type) {
	case nil:
		return "<nil>"
	case *storage.FileSystem:
		if b == nil {
			return "<nil FileSystem>"
		}
		return "filesystem:path=" + b.Options.Path
	default:
		return fmt.Sprintf("%T", st)
	}
}

func snapWriter(w *writer.Writer, keys []string) snap {
	s := snap{}
	s["Storage"] = storageSnap(w.Storage)
	o := w.Options
	if o == nil {
		s["options"] = "<nil>"
		return s
	}
	s["Format"] = string(o.Format)
	if o.RenderOptions == nil {
		s["RenderOptions"] = "<nil>"
	} else {
		s["RenderOptions"] = fmt.Sprintf("indent=%d", o.RenderOptions.Indent)
	}
	if o.SerializeOptions == nil {
		s["SerializeOptions"] = "<nil>"
	} else {
		s["SerializeOptions"] = "set"
	}
	if o.StoreOptions == nil {
		s["StoreOptions"] = "<nil>"
	} else {
		s["StoreOptions"] = fmt.Sprintf("noclobber=%v backend=%s", o.StoreOptions.NoClobber, anyStr(o.StoreOptions.BackendOptions))
	}
	for _, k := range keys {
		s["fmtopt:"+k] = anyStr(o.GetFormatOptions(k))
	}
	return s
}

func snapReader(r *reader.Reader, keys []string) snap {
	s := snap{}
	s["Storage"] = storageSnap(r.Storage)
	o := r.Options
	if o == nil {
		s["options"] = "<nil>"
		return s
	}
	s["Format"] = string(o.Format)
	if o.UnserializeOptions == nil {
		s["UnserializeOptions"] = "<nil>"
	} else {
		s["UnserializeOptions"] = "set"
	}
	if o.RetrieveOptions == nil {
		s["RetrieveOptions"] = "<nil>"
	} else {
		s["RetrieveOptions"] = "backend=" + anyStr(o.RetrieveOptions.BackendOptions)
	}
	for _, k := range keys {
		s["fmtopt:"+k] = anyStr(o.GetFormatOptions(k))
	}
	return s
}

// drivers that report which format options reached them
type c18Serializer struct{}

func (c18Serializer) Serialize(d *sbom.Document, _ *native.SerializeOptions, fo interface{}) (interface{}, error) {
	return map[string]string{"serialize_got": anyStr(fo)}, nil
}

func (c18Serializer) Render(doc interface{}, w io.Writer, _ *native.RenderOptions, fo interface{}) error {
	m := doc.(map[string]string)
	_, err := fmt.Fprintf(w, `{"serialize_got":%q,"render_got":%q}`, m["serialize_got"], anyStr(fo))
	return err
}

type c18Unserializer struct{}

func (c18Unserializer) Unserialize(r io.Reader, _ *native.UnserializeOptions, fo interface{}) (*sbom.Document, error) {
	d := sbom.NewDocument()
	d.Metadata.Comment = anyStr(fo)
	return d, nil
}

var (
	c18SerKey   = fmt.Sprintf("%T", &c18Serializer{})
	c18UnserKey = fmt.Sprintf("%T", &c18Unserializer{})
)

// ProbeDefaults observes the defaults in a fresh process (first constructor call).
func ProbeDefaults() (w, r map[string]string) {
	return snapWriter(writer.New(), nil), snapReader(reader.New(), nil)
}

var c18RealFormats = []string{string(formats.SPDX23JSON), string(formats.CDX14JSON), string(formats.CDX15JSON)}

func genC18(verifSeed int64, tier string, idx int) *core.Scenario {
	seed := core.SplitMix(uint64(verifSeed), uint64(idx)*2654435761+18)
	r := rand.New(rand.NewSource(int64(seed)))
	sp := &Spec{}
	ntasks := 1
	if r.Intn(3) == 0 {
		ntasks = 2 + r.Intn(2)
	}
	d := serialisableDoc(r, "c18", 3)
	sp.Docs = append(sp.Docs, docToB64(d))
	b, err := gen.RenderSafe(c18RealFormats[r.Intn(3)], d, 2)
	if err != nil {
		b = repoFile("bom-1.4.json")
	}
	sp.Streams = append(sp.Streams, b64(b))
	wopts := []string{"format", "render", "serialize", "fmtopts", "storeopts", "drvopts", "render-nil", "serialize-nil", "storeopts-nil", "store-nil", "realdrv"}
	ropts := []string{"fmtopts", "unserialize", "retrieve", "drvopts", "unserialize-nil", "retrieve-nil", "store-nil", "sniffer-nil", "realdrv"}
	call := 0
	for t := 0; t < ntasks; t++ {
		n := 3 + r.Intn(10)
		if ntasks > 1 {
			n = 2 + r.Intn(5)
		}
		var ops []Op
		nw, nr := 0, 0
		for i := 0; i < n; i++ {
			call++
			k := r.Intn(10)
			switch {
			case k < 3 || (nw == 0 && nr == 0):
				op := Op{K: "WNew", I: call}
				// every subset of the options occurs; the empty subset often
				if r.Intn(3) != 0 {
					for _, o := range wopts {
						if r.Intn(2) == 0 {
							op.Opts = append(op.Opts, o)
						}
					}
				}
				switch r.Intn(6) {
				case 5:
					op.F = "" // WithFormat("") is an option like any other
				case 0, 1:
					op.F = c18RealFormats[r.Intn(3)]
				case 2:
					op.F = fmtPrivA // served by the reporting driver
				default:
					op.F = fmt.Sprintf("application/x-verif-i%d+json;version=1", call)
				}
				ops = append(ops, op)
				nw++
			case k < 5:
				op := Op{K: "RNew", I: call}
				if r.Intn(3) != 0 {
					for _, o := range ropts {
						if r.Intn(2) == 0 {
							op.Opts = append(op.Opts, o)
						}
					}
				}
				ops = append(ops, op)
				nr++
			case k < 7:
				if nw+nr == 0 {
					continue
				}
				ops = append(ops, Op{K: "Obs", D: r.Intn(nw + nr)})
			case k < 8 && nw > 0:
				ops = append(ops, Op{K: "WWrite", D: r.Intn(nw)})
			case k < 9 && nw > 0 && r.Intn(3) == 0:
				sfx := []string{".spdx.json", ".cdx.json", ".json", ".spdx", ".SPDX.JSON", ".cdx.xml", "", ".protobom"}[r.Intn(8)]
				if r.Intn(2) == 0 {
					ops = append(ops, Op{K: "WWriteFile", D: r.Intn(nw), A: sfx})
				} else {
					f := ""
					if r.Intn(2) == 0 {
						f = c18RealFormats[r.Intn(3)]
					}
					ops = append(ops, Op{K: "WWriteFileOpt", D: r.Intn(nw), A: sfx, F: f, I: 1 + r.Intn(7)})
				}
			case k < 9 && nw > 0:
				wo := Op{K: "WWriteOpt", D: r.Intn(nw), F: c18RealFormats[r.Intn(3)], I: 1 + r.Intn(7)}
				if wo.F != string(formats.SPDX23JSON) && r.Intn(4) == 0 {
					wo.I = -1 - r.Intn(3)
				}
				ops = append(ops, wo)
			case nw+nr > 0 && r.Intn(3) == 0:
				// configuring a live instance in place through its exported Options
				ops = append(ops, Op{K: "Config", D: r.Intn(nw + nr), I: call, A: []string{"format", "render", "store", "fmtopts", "retrieve", "storagepath"}[r.Intn(6)]})
			case nw+nr > 0 && r.Intn(4) == 0:
				ops = append(ops, Op{K: "StoreRetrieve", D: r.Intn(nw + nr), I: call})
			case nr > 0 && r.Intn(2) == 0:
				ops = append(ops, Op{K: "RParseOpt", D: r.Intn(nr), F: c18RealFormats[r.Intn(3)]})
			case nr > 0:
				ops = append(ops, Op{K: "RDrv", D: r.Intn(nr), I: call*2 + r.Intn(2)})
			case nw > 0:
				ops = append(ops, Op{K: "WDrv", D: r.Intn(nw), I: call*2 + r.Intn(2)})
			}
		}
		// always end by observing everything
		ops = append(ops, Op{K: "ObsAll"})
		sp.Tasks = append(sp.Tasks, ops)
	}
	sc := &core.Scenario{V: 1, Property: "C18", Engine: "concur", VerifSeed: verifSeed, Run: idx, RunSeed: seed}
	if ntasks == 1 {
		sc.Sched = verifsim.Config{Seed: seed, Policy: "serial", MaxSteps: 3000000, MapOrder: "random"}
	} else {
		sc.Sched = genSched(r, seed)
	}
	sc.Spec = encodeSpec(sp)
	return sc
}

type c18inst struct {
	kind   string // W or R
	w      *writer.Writer
	r      *reader.Reader
	model  snap
	call   int
	atNew  bool // snapshot at construction matched the model
	nLater int  // constructors called after this instance was built
}

type c18task struct {
	insts   []*c18inst
	writers []*c18inst
	readers []*c18inst
	viol    []core.Violation
	states  []string
	probes  map[string]int
}

type c18env struct {
	doc      *sbom.Document
	stream   []byte
	keys     []string
	defW     snap
	defR     snap
	tasks    []*c18task
	solo     map[string]string // format -> declared format found in solo output
	ctorSeen int
}

// negIndentSPDX: the SPDX driver of the unchanged tree panics on a negative indent (strings.Repeat);
// that is a matter of the driver and its option value, not of configuration isolation, so such
// writes are left out (negative indents are still configured, observed, and written through CycloneDX).
func negIndentSPDX(model snap, perCallFormat string) bool {
	f := model["Format"]
	if perCallFormat != "" {
		f = perCallFormat
	}
	return f == string(formats.SPDX23JSON) && strings.HasPrefix(model["RenderOptions"], "indent=-")
}

func declaredFormat(b []byte) string {
	var decl struct {
		BomFormat   string `json:"bomFormat"`
		SpecVersion string `json:"specVersion"`
		SpdxVersion string `json:"spdxVersion"`
	}
	if json.Unmarshal(b, &decl) != nil {
		return "notjson"
	}
	switch {
	case strings.EqualFold(decl.BomFormat, "CycloneDX"):
		return "application/vnd.cyclonedx+json;version=" + decl.SpecVersion
	case strings.HasPrefix(decl.SpdxVersion, "SPDX-"):
		return "text/spdx+json;version=" + strings.TrimPrefix(decl.SpdxVersion, "SPDX-")
	}
	return "undeclared"
}

// indentOf measures the indentation of the first indented line.
func indentOf(b []byte) int {
	lines := bytes.Split(b, []byte("\n"))
	for _, ln := range lines[1:] {
		n := 0
		for n < len(ln) && ln[n] == ' ' {
			n++
		}
		if n > 0 {
			return n
		}
	}
	return 0
}

func (t *c18task) violate(sig, detail string) {
	for _, v := range t.viol {
		if v.Sig == sig {
			return
		}
	}
	t.viol = append(t.viol, core.Violation{Sig: sig, Detail: detail})
}

func (env *c18env) observe(t *c18task, in *c18inst, when string) string {
	var got snap
	pkg := "writer"
	if in.kind == "W" {
		got = snapWriter(in.w, env.keys)
	} else {
		got = snapReader(in.r, env.keys)
		pkg = "reader"
	}
	t.states = append(t.states, gen.HashHex(pkg+got.String()))
	var diffs []string
	for k, want := range in.model {
		if got[k] != want {
			diffs = append(diffs, k)
		}
	}
	sort.Strings(diffs)
	if len(diffs) == 0 {
		return "ok"
	}
	for _, k := range diffs {
		field := k
		if strings.HasPrefix(field, "fmtopt:") {
			field = "formatOptions"
		}
		kind := "earlier-instance"
		if when == "new" {
			kind = "later-instance"
		} else if when == "percall" || when == "filewrite" {
			kind = "per-call-sticky"
		} else if !in.atNew {
			kind = "later-instance"
		}
		t.violate(fmt.Sprintf("leak:%s:%s:%s", pkg, field, kind),
			fmt.Sprintf("%s instance built by constructor call #%d: %s is %q but defaults (+) its own options give %q (observed %s)", pkg, in.call, k, got[k], in.model[k], when))
	}
	return "diff:" + strings.Join(diffs, ",")
}

func execC18(sc *core.Scenario) *core.Result {
	res := &core.Result{}
	sp, err := decodeSpec(sc)
	if err != nil {
		res.Harness = err.Error()
		return res
	}
	var pi struct {
		WDef map[string]string `json:"wdef"`
		RDef map[string]string `json:"rdef"`
	}
	if err := json.Unmarshal([]byte(core.ProbeJSON()), &pi); err != nil || pi.WDef == nil {
		res.Harness = "C18: defaults probe missing"
		return res
	}
	env := &c18env{doc: docFromB64(sp.Docs[0]), stream: unb64(sp.Streams[0]), defW: pi.WDef, defR: pi.RDef}
	// universe of format-option keys of this run
	for _, ops := range sp.Tasks {
		for _, op := range ops {
			if op.K == "WNew" || op.K == "RNew" {
				env.keys = append(env.keys, fmt.Sprintf("key-%d", op.I))
			}
		}
	}
	env.keys = append(env.keys, "never-set", c18SerKey, c18UnserKey)
	env.keys = append(env.keys, c18RealWKeys...)
	env.keys = append(env.keys, c18RealRKeys...)
	// reporting drivers under a private format (registered before any task exists)
	writer.RegisterSerializer(formats.Format(fmtPrivA), &c18Serializer{})
	reader.RegisterUnserializer(formats.Format(fmtPrivA), &c18Unserializer{})
	for range sp.Tasks {
		env.tasks = append(env.tasks, &c18task{probes: map[string]int{}})
	}
	verifsim.ClockSet(baseClock)
	// the file entry points write to a simulated disk
	disk := simos.NewDisk(1000)
	disk.Quiet = true
	disk.PutDir("/c18", 0o755, 1000)
	simos.Mount(disk)
	defer simos.Mount(nil)
	recs := mkRecs(sp.Tasks)
	core.RaceMark()
	sr := runTasks(sc.Sched, recs, env.mkOp)
	simos.Mount(nil)
	res.Sched = sr
	res.Ops = countOps(recs)
	abortViolations(res, sr, recs, "abort")
	for _, t := range env.tasks {
		for _, v := range t.viol {
			res.Violate(v.Sig, v.Detail)
		}
		res.States = append(res.States, t.states...)
		for k, v := range t.probes {
			if res.Probes == nil {
				res.Probes = map[string]int{}
			}
			res.Probes[k] += v
		}
	}
	res.Outcomes = outcomesOf(recs)
	h := sr.LogHash
	for _, o := range res.Outcomes {
		h = h*1099511628211 ^ core.HashStr(o)
	}
	res.LogHash = fmt.Sprintf("%016x", h)
	// non-trivial: some instance was observed after at least one later constructor call
	res.Nontrivial = res.Probes["observed-after-later-constructor"] > 0
	res.Key = fmt.Sprintf("%016x-%016x", core.HashStr(string(sc.Spec)), sr.IlvHash)
	if sc.Run%97 == 0 {
		res.Sample = map[string]any{"run": sc.Run, "tasks": sp.Tasks, "outcomes": res.Outcomes}
	}
	return res
}

func (env *c18env) mkOp(rec *opRec) func() string {
	op := rec.Op
	t := env.tasks[rec.Task]
	switch op.K {
	case "WNew":
		return func() string {
			model := env.defW.clone()
			for _, k := range env.keys {
				if _, ok := model["fmtopt:"+k]; !ok {
					model["fmtopt:"+k] = "<nil>"
				}
			}
			var opts []writer.WriterOption
			for _, o := range op.Opts {
				switch o {
				case "format":
					opts = append(opts, writer.WithFormat(formats.Format(op.F)))
					model["Format"] = op.F
				case "render":
					ind := 100 + op.I
					if op.I%4 == 3 {
						ind = -1 - op.I%5 // any int is a value of the option (what a driver makes of it is the driver's business)
					}
					opts = append(opts, writer.WithRenderOptions(&native.RenderOptions{Indent: ind}))
					model["RenderOptions"] = fmt.Sprintf("indent=%d", ind)
				case "serialize":
					opts = append(opts, writer.WithSerializeOptions(&native.SerializeOptions{}))
					model["SerializeOptions"] = "set"
				case "fmtopts":
					opts = append(opts, writer.WithFormatOptions(fmt.Sprintf("key-%d", op.I), fmt.Sprintf("val-%d", op.I)))
					model[fmt.Sprintf("fmtopt:key-%d", op.I)] = fmt.Sprintf("val-%d", op.I)
				case "render-nil": // a nil argument is documented (by the code) to leave the option alone
					opts = append(opts, writer.WithRenderOptions(nil))
				case "serialize-nil":
					opts = append(opts, writer.WithSerializeOptions(nil))
				case "storeopts-nil":
					opts = append(opts, writer.WithStoreOptions(nil))
				case "store-nil":
					opts = append(opts, writer.WithStoreRetriever(nil))
				case "realdrv":
					k, v := c18RealWKeys[op.I%2], c18RealValue(op.I)
					opts = append(opts, writer.WithFormatOptions(k, v))
					model["fmtopt:"+k] = anyStr(v)
				case "drvopts":
					opts = append(opts, writer.WithFormatOptions(c18SerKey, fmt.Sprintf("inst-%d", op.I)))
					model["fmtopt:"+c18SerKey] = fmt.Sprintf("inst-%d", op.I)
				case "storeopts":
					opts = append(opts, writer.WithStoreOptions(&storage.StoreOptions{NoClobber: op.I%2 == 0, BackendOptions: fmt.Sprintf("be-%d", op.I)}))
					model["StoreOptions"] = fmt.Sprintf("noclobber=%v backend=be-%d", op.I%2 == 0, op.I)
				}
			}
			for _, in := range t.insts {
				in.nLater++
			}
			w := writer.New(opts...)
			if w == nil {
				return "nil"
			}
			in := &c18inst{kind: "W", w: w, model: model, call: op.I}
			t.insts = append(t.insts, in)
			t.writers = append(t.writers, in)
			out := env.observe(t, in, "new")
			in.atNew = out == "ok"
			return out
		}
	case "RNew":
		return func() string {
			model := env.defR.clone()
			for _, k := range env.keys {
				if _, ok := model["fmtopt:"+k]; !ok {
					model["fmtopt:"+k] = "<nil>"
				}
			}
			var opts []reader.ReaderOption
			for _, o := range op.Opts {
				switch o {
				case "fmtopts":
					opts = append(opts, reader.WithFormatOptions(fmt.Sprintf("key-%d", op.I), fmt.Sprintf("val-%d", op.I)))
					model[fmt.Sprintf("fmtopt:key-%d", op.I)] = fmt.Sprintf("val-%d", op.I)
				case "unserialize-nil":
					opts = append(opts, reader.WithUnserializeOptions(nil))
				case "retrieve-nil":
					opts = append(opts, reader.WithRetrieveOptions(nil))
				case "store-nil":
					opts = append(opts, reader.WithStoreRetriever(nil))
				case "sniffer-nil":
					opts = append(opts, reader.WithSniffer(nil))
				case "realdrv":
					k, v := c18RealRKeys[op.I%2], c18RealValue(op.I)
					opts = append(opts, reader.WithFormatOptions(k, v))
					model["fmtopt:"+k] = anyStr(v)
				case "drvopts":
					opts = append(opts, reader.WithFormatOptions(c18UnserKey, fmt.Sprintf("inst-%d", op.I)))
					model["fmtopt:"+c18UnserKey] = fmt.Sprintf("inst-%d", op.I)
				case "unserialize":
					opts = append(opts, reader.WithUnserializeOptions(&native.UnserializeOptions{}))
					model["UnserializeOptions"] = "set"
				case "retrieve":
					opts = append(opts, reader.WithRetrieveOptions(&storage.RetrieveOptions{BackendOptions: fmt.Sprintf("be-%d", op.I)}))
					model["RetrieveOptions"] = fmt.Sprintf("backend=be-%d", op.I)
				}
			}
			for _, in := range t.insts {
				in.nLater++
			}
			r := reader.New(opts...)
			if r == nil {
				return "nil"
			}
			in := &c18inst{kind: "R", r: r, model: model, call: op.I}
			t.insts = append(t.insts, in)
			t.readers = append(t.readers, in)
			out := env.observe(t, in, "new")
			in.atNew = out == "ok"
			return out
		}
	case "Obs":
		return func() string {
			if len(t.insts) == 0 {
				return "none"
			}
			in := t.insts[op.D%len(t.insts)]
			if in.nLater >= 2 {
				t.probes["observed-after->=2-later-constructors"]++
			}
			if in.nLater >= 1 {
				t.probes["observed-after-later-constructor"]++
			}
			return env.observe(t, in, "later")
		}
	case "ObsAll":
		return func() string {
			out := "ok"
			for _, in := range t.insts {
				if in.nLater >= 1 {
					t.probes["observed-after-later-constructor"]++
				}
				if o := env.observe(t, in, "later"); o != "ok" {
					out = o
				}
			}
			return out
		}
	case "WWrite":
		return func() string {
			if len(t.writers) == 0 {
				return "none"
			}
			in := t.writers[op.D%len(t.writers)]
			if negIndentSPDX(in.model, "") {
				return "skip:negative-indent-spdx"
			}
			s := &sink{}
			err := in.w.WriteStream(env.doc, s)
			want := in.model["Format"]
			if want == fmtPrivA && err == nil {
				// the reporting driver tells which format options the instance handed to it
				t.probes["instance-level write through the reporting driver"]++
				var got struct {
					S string `json:"serialize_got"`
					R string `json:"render_got"`
				}
				json.Unmarshal(s.Bytes(), &got)
				if exp := in.model["fmtopt:"+c18SerKey]; got.S != exp || got.R != exp {
					t.violate("leak:writer:formatOptions:driver-got-other", fmt.Sprintf("writer #%d has format options %q for its driver but the driver received %q (Serialize) and %q (Render)", in.call, exp, got.S, got.R))
				}
				return "drv:" + got.S
			}
			real := false
			for _, f := range c18RealFormats {
				if f == want {
					real = true
				}
			}
			if real {
				t.probes["write-on-instance-with-own-format"]++
				if err != nil {
					if _, derr := gen.RenderSafe(want, env.doc, 2); derr != nil {
						return "err-driver" // the driver itself refuses this document: not a matter of configuration
					}
					t.violate("leak:writer:Format:write-failed", fmt.Sprintf("writer built by call #%d with format %s failed to write: %v", in.call, want, err))
					return "err"
				}
				if got := declaredFormat(s.Bytes()); got != want {
					t.violate("leak:writer:Format:write-used-other", fmt.Sprintf("writer built by call #%d has format %s but its output declares %s", in.call, want, got))
					return "fmt:" + got
				}
				return "fmt:" + want
			}
			if err == nil {
				t.violate("leak:writer:Format:write-used-other", fmt.Sprintf("writer built by call #%d has format %q (no serializer) but WriteStream succeeded; output declares %s", in.call, want, declaredFormat(s.Bytes())))
				return "fmt:" + declaredFormat(s.Bytes())
			}
			return "err"
		}
	case "WWriteFile", "WWriteFileOpt":
		// the file entry points: whatever they make of the file name, the instance's configuration stays what
		// its constructor made it, and a per-call format is used for that call
		return func() string {
			if len(t.writers) == 0 {
				return "none"
			}
			in := t.writers[op.D%len(t.writers)]
			before := env.observe(t, in, "later")
			path := fmt.Sprintf("/c18/t%d_%d%s", rec.Task, rec.Index, op.A)
			if in.model["Format"] == "" {
				t.probes["file write on an instance without a format"]++
			}
			var err error
			if negIndentSPDX(in.model, "") && (op.K == "WWriteFile" || op.F == "") {
				return "skip:negative-indent-spdx"
			}
			if op.K == "WWriteFile" {
				err = in.w.WriteFile(env.doc, path)
			} else {
				err = in.w.WriteFileWithOptions(env.doc, path, &writer.Options{Format: formats.Format(op.F),
					RenderOptions: &native.RenderOptions{Indent: op.I}, SerializeOptions: &native.SerializeOptions{}})
				if err == nil && op.F != "" {
					b, rerr := simos.ReadFile(path)
					if got := declaredFormat(b); rerr != nil || got != op.F {
						t.violate("leak:writer:Format:per-call", fmt.Sprintf("per-call format %s on writer #%d wrote a file declaring %s (read error %v)", op.F, in.call, got, rerr))
					}
				}
			}
			_ = err
			if before != "ok" {
				return before
			}
			if o := env.observe(t, in, "filewrite"); o != "ok" {
				return o
			}
			// and the next plain write of the same instance still uses the instance's own format
			if want := in.model["Format"]; want == "" {
				s := &sink{}
				if werr := in.w.WriteStream(env.doc, s); werr == nil {
					t.violate("leak:writer:Format:write-used-other", fmt.Sprintf("writer #%d was built without a format; after a file write to %s its WriteStream succeeds and declares %s", in.call, path, declaredFormat(s.Bytes())))
					return "fmt:" + declaredFormat(s.Bytes())
				}
			}
			return "ok"
		}
	case "WWriteOpt":
		return func() string {
			if len(t.writers) == 0 {
				return "none"
			}
			in := t.writers[op.D%len(t.writers)]
			if in.model["Format"] != "" && in.model["Format"] != op.F {
				t.probes["per-call-override-on-instance-with-own-format"]++
			}
			before := env.observe(t, in, "later")
			s := &sink{}
			err := in.w.WriteStreamWithOptions(env.doc, s, &writer.Options{Format: formats.Format(op.F),
				RenderOptions: &native.RenderOptions{Indent: op.I}, SerializeOptions: &native.SerializeOptions{}})
			if err != nil {
				if _, derr := gen.RenderSafe(op.F, env.doc, op.I); derr != nil {
					return "err-driver" // the driver itself refuses this document: not a matter of configuration
				}
				t.violate("leak:writer:Format:per-call", fmt.Sprintf("per-call format %s on writer #%d failed: %v", op.F, in.call, err))
				return "err"
			}
			if got := declaredFormat(s.Bytes()); got != op.F {
				t.violate("leak:writer:Format:per-call", fmt.Sprintf("per-call format %s on writer #%d produced %s", op.F, in.call, got))
				return "fmt:" + got
			}
			// reference: what the driver itself renders for this indent (a driver may ignore it)
			if ref, rerr := renderWith(op.F, env.doc, op.I); rerr == nil {
				if got, want := indentOf(s.Bytes()), indentOf(ref); got != want {
					t.violate("leak:writer:RenderOptions:per-call", fmt.Sprintf("per-call indent %d on writer #%d produced indentation %d, the driver alone gives %d", op.I, in.call, got, want))
				}
			}
			if before != "ok" {
				return before
			}
			return env.observe(t, in, "percall")
		}
	case "Config":
		return func() string {
			if len(t.insts) == 0 {
				return "none"
			}
			in := t.insts[op.D%len(t.insts)]
			if env.observe(t, in, "later") != "ok" {
				return "already-off"
			}
			// the change goes through the instance's own exported configuration, in place
			switch {
			case op.A == "storagepath":
				// the default backend of an instance is its own: pointing it somewhere is configuring this instance
				var st storage.StoreRetriever
				if in.kind == "W" {
					st = in.w.Storage
				} else {
					st = in.r.Storage
				}
				fsb, ok := st.(*storage.FileSystem)
				if !ok || fsb == nil {
					return "not-applicable"
				}
				fsb.Options.Path = fmt.Sprintf("/cfg-dir-%d", op.I)
				in.model["Storage"] = "filesystem:path=" + fsb.Options.Path
			case in.kind == "W" && op.A == "format":
				in.w.Options.Format = formats.Format(fmt.Sprintf("application/x-verif-cfg%d+json;version=1", op.I))
				in.model["Format"] = string(in.w.Options.Format)
			case in.kind == "W" && op.A == "render" && in.w.Options.RenderOptions != nil:
				in.w.Options.RenderOptions.Indent = 200 + op.I
				in.model["RenderOptions"] = fmt.Sprintf("indent=%d", 200+op.I)
			case in.kind == "W" && op.A == "store" && in.w.Options.StoreOptions != nil:
				in.w.Options.StoreOptions.NoClobber = !in.w.Options.StoreOptions.NoClobber
				in.w.Options.StoreOptions.BackendOptions = fmt.Sprintf("cfg-%d", op.I)
				in.model["StoreOptions"] = fmt.Sprintf("noclobber=%v backend=cfg-%d", in.w.Options.StoreOptions.NoClobber, op.I)
			case in.kind == "W" && op.A == "fmtopts":
				in.w.Options.SetFormatOptions("never-set", fmt.Sprintf("cfg-%d", op.I))
				in.model["fmtopt:never-set"] = fmt.Sprintf("cfg-%d", op.I)
			case in.kind == "R" && op.A == "retrieve" && in.r.Options.RetrieveOptions != nil:
				in.r.Options.RetrieveOptions.BackendOptions = fmt.Sprintf("cfg-%d", op.I)
				in.model["RetrieveOptions"] = fmt.Sprintf("backend=cfg-%d", op.I)
			case in.kind == "R" && op.A == "fmtopts":
				in.r.Options.SetFormatOptions("never-set", fmt.Sprintf("cfg-%d", op.I))
				in.model["fmtopt:never-set"] = fmt.Sprintf("cfg-%d", op.I)
			case in.kind == "R" && op.A == "format":
				in.r.Options.Format = formats.Format(fmt.Sprintf("application/x-verif-cfg%d+json;version=1", op.I))
				in.model["Format"] = string(in.r.Options.Format)
			default:
				return "not-applicable"
			}
			t.probes["instance configured in place after construction"]++
			for _, other := range t.insts {
				other.nLater++ // counts like a later constructor for the "observed after" probe
			}
			return env.observe(t, in, "later")
		}
	case "StoreRetrieve":
		return func() string {
			if len(t.insts) == 0 {
				return "none"
			}
			in := t.insts[op.D%len(t.insts)]
			before := env.observe(t, in, "later")
			// calls that go to the storage backend (the default backend without a directory fails
			// harmlessly); what matters here is what they do to configuration
			// per-call backend options of the types a backend might understand
			var bo any = "percall"
			switch op.I % 5 {
			case 3:
				bo = storage.FileSystemOptions{Path: fmt.Sprintf("/c18/percall-%d", op.I)}
			case 4:
				bo = &storage.FileSystemOptions{Path: fmt.Sprintf("/c18/percall-%d", op.I)}
			}
			if in.kind == "W" {
				switch op.I % 3 {
				case 0:
					_ = in.w.Store(env.doc)
				case 1:
					o := &writer.Options{}
					_ = in.w.StoreWithOptions(env.doc, o)
					if o.StoreOptions != nil || o.Format != "" || o.RenderOptions != nil || o.SerializeOptions != nil {
						t.violate("leak:writer:per-call-options-modified", "StoreWithOptions wrote into the options set it was given")
					}
				default:
					_ = in.w.StoreWithOptions(env.doc, &writer.Options{StoreOptions: &storage.StoreOptions{NoClobber: true, BackendOptions: bo}})
				}
			} else {
				switch op.I % 3 {
				case 0:
					_, _ = in.r.Retrieve("some-id")
				case 1:
					o := &reader.Options{}
					_, _ = in.r.RetrieveWithOptions("some-id", o)
					if o.RetrieveOptions != nil || o.Format != "" || o.UnserializeOptions != nil {
						t.violate("leak:reader:per-call-options-modified", "RetrieveWithOptions wrote into the options set it was given")
					}
				default:
					_, _ = in.r.RetrieveWithOptions("some-id", &reader.Options{RetrieveOptions: &storage.RetrieveOptions{BackendOptions: bo}})
				}
			}
			t.probes["store/retrieve call on a live instance"]++
			if before != "ok" {
				return before
			}
			return env.observe(t, in, "percall")
		}
	case "WDrv":
		return func() string {
			if len(t.writers) == 0 {
				return "none"
			}
			in := t.writers[op.D%len(t.writers)]
			before := env.observe(t, in, "later")
			o := &writer.Options{Format: formats.Format(fmtPrivA), RenderOptions: &native.RenderOptions{Indent: 1}, SerializeOptions: &native.SerializeOptions{}}
			exp := "<nil>"
			if op.I%2 == 1 {
				exp = fmt.Sprintf("call-%d", op.I)
				o.SetFormatOptions(c18SerKey, exp)
			}
			s := &sink{}
			if err := in.w.WriteStreamWithOptions(env.doc, s, o); err != nil {
				t.violate("leak:writer:formatOptions:per-call", fmt.Sprintf("per-call write through the reporting driver failed: %v", err))
				return "err"
			}
			var got struct {
				S string `json:"serialize_got"`
				R string `json:"render_got"`
			}
			json.Unmarshal(s.Bytes(), &got)
			t.probes["per-call format options through the reporting driver"]++
			if got.S != exp || got.R != exp {
				t.violate("leak:writer:formatOptions:per-call", fmt.Sprintf("per-call format options %q on writer #%d: the driver received %q (Serialize) and %q (Render)", exp, in.call, got.S, got.R))
			}
			if before != "ok" {
				return before
			}
			return env.observe(t, in, "percall")
		}
	case "RDrv":
		return func() string {
			if len(t.readers) == 0 {
				return "none"
			}
			in := t.readers[op.D%len(t.readers)]
			before := env.observe(t, in, "later")
			o := &reader.Options{Format: formats.Format(fmtPrivA), UnserializeOptions: &native.UnserializeOptions{}}
			exp := "<nil>"
			if op.I%2 == 1 {
				exp = fmt.Sprintf("call-%d", op.I)
				o.SetFormatOptions(c18UnserKey, exp)
			}
			d, err := in.r.ParseStreamWithOptions(bytes.NewReader(env.stream), o)
			if err != nil || d == nil || d.Metadata == nil {
				t.violate("leak:reader:formatOptions:per-call", fmt.Sprintf("per-call parse through the reporting driver failed: %v", err))
				return "err"
			}
			t.probes["per-call format options through the reporting driver"]++
			if got := d.Metadata.Comment; got != exp {
				t.violate("leak:reader:formatOptions:per-call", fmt.Sprintf("per-call format options %q on reader #%d (whose own are %q): the driver received %q", exp, in.call, in.model["fmtopt:"+c18UnserKey], got))
			}
			if before != "ok" {
				return before
			}
			return env.observe(t, in, "percall")
		}
	case "RParseOpt":
		return func() string {
			if len(t.readers) == 0 {
				return "none"
			}
			in := t.readers[op.D%len(t.readers)]
			if before := env.observe(t, in, "later"); before != "ok" {
				return before
			}
			_, _ = in.r.ParseStreamWithOptions(bytes.NewReader(env.stream), &reader.Options{Format: formats.Format(op.F), UnserializeOptions: &native.UnserializeOptions{}})
			return env.observe(t, in, "percall")
		}
	}
	return func() string { return "unknown-op" }
}
