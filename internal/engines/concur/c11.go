package concur

import (
	"reflect"
	"bytes"
	"encoding/json"
	"fmt"
	"math/rand"
	"os"
	"sort"
	"strings"

	"github.com/protobom/protobom/pkg/formats"
	"github.com/protobom/protobom/pkg/native"
	"github.com/protobom/protobom/pkg/reader"
	"github.com/protobom/protobom/pkg/sbom"
	verifsim "github.com/protobom/protobom/pkg/verifsim"
	"github.com/protobom/protobom/pkg/writer"
	"google.golang.org/protobuf/proto"

	"verif/internal/core"
	"verif/internal/gen"
)

// C11: read-only / value-returning operations leave their operands unchanged,
// hence any number of them may share one document without data races.

// The operation table is explicit: a method is only ever called as "read-only"
// if it is listed here. Methods of pkg/sbom that are neither here nor in the
// mutator list are named in the evidence as not exercised.
var c11ReadOnly = map[string]string{
	"NLEqual": "NodeList.Equal", "NodeEqual": "Node.Equal", "EdgeEqual": "Edge.Equal", "Checksum": "Node.Checksum", "Diff": "Node.Diff",
	"CopyNode": "Node.Copy", "CopyEdge": "Edge.Copy", "CopyPerson": "Person.Copy", "CopyExtRef": "ExternalReference.Copy", "CopyNL": "NodeList.Copy",
	"GetNodeByID": "NodeList.GetNodeByID", "GetNodesByName": "NodeList.GetNodesByName", "GetNodesByIdentifier": "NodeList.GetNodesByIdentifier",
	"GetNodesByPurlType": "NodeList.GetNodesByPurlType", "GetRootNodes": "NodeList.GetRootNodes", "GetMatchingNode": "NodeList.GetMatchingNode",
	"GetEdgeByType": "NodeList.GetEdgeByType", "NodeGraph": "NodeList.NodeGraph", "NodeSiblings": "NodeList.NodeSiblings",
	"NodeDescendants": "NodeList.NodeDescendants", "Union": "NodeList.Union", "Intersect": "NodeList.Intersect", "Purl": "Node.Purl",
	"HashesMatch": "Node.HashesMatch", "PointsTo": "Edge.PointsTo", "DocGetRootNodes": "Document.GetRootNodes",
	"PersonStr": "Person.ToSPDX2ClientString", "PersonOrg": "Person.ToSPDX2ClientOrg", "Write": "writer.WriteStream",
}

var c11Mutators = []string{"Edge.AddDestinationById", "Node.AddHash", "Node.Augment", "Node.Update", "NodeList.Add", "NodeList.AddEdge",
	"NodeList.AddNode", "NodeList.AddRootNode", "NodeList.RelateNodeAtID", "NodeList.RelateNodeListAtID", "NodeList.RemoveNodes"}

var c11Kinds []string

func init() {
	for k := range c11ReadOnly {
		c11Kinds = append(c11Kinds, k)
	}
	sort.Strings(c11Kinds)
}

var c11WriteFormats = []string{string(formats.SPDX23JSON), string(formats.CDX14JSON), string(formats.CDX15JSON), string(formats.CDX13JSON)}

func genC11(verifSeed int64, tier string, idx int) *core.Scenario {
	seed := core.SplitMix(uint64(verifSeed), uint64(idx)*2654435761+11)
	r := rand.New(rand.NewSource(int64(seed)))
	sp := &Spec{}
	maxNodes := 6
	if tier == "thorough" && r.Intn(5) == 0 {
		maxNodes = 30
	}
	g := gen.New(r.Int63(), gen.Profile{MaxNodes: maxNodes, Tag: "s"})
	shared := g.Document("shared-doc")
	// persons with nested contacts and external references with hashes occur in most documents
	if len(shared.NodeList.Nodes) > 0 && r.Intn(3) != 0 {
		n := shared.NodeList.Nodes[r.Intn(len(shared.NodeList.Nodes))]
		n.Suppliers = append(n.Suppliers, g.Person(0))
		n.ExternalReferences = append(n.ExternalReferences, &sbom.ExternalReference{Url: "https://e.example/x", Hashes: map[int32]string{1: "aa", 3: "bb"}})
	}
	sp.Docs = append(sp.Docs, docToB64(shared))
	wd := serialisableDoc(r, "w", 4)
	switch r.Intn(8) { // documents a writer might want to "complete" before serializing
	case 0:
		wd.Metadata.Version = ""
	case 1:
		wd.Metadata.Date = nil
	case 2:
		wd.Metadata.Tools = nil
	case 3:
		wd.Metadata.Name, wd.Metadata.Authors = "", nil
	case 4:
		// a component that was never given an identifier (nothing refers to it)
		wd.NodeList.Nodes = append(wd.NodeList.Nodes, &sbom.Node{Name: "unnamed-id", Type: sbom.Node_PACKAGE})
	case 5, 6:
		// a document that already went through protobom once (written, then parsed again): it carries
		// whatever the unserializers add (tool entries, generated identifiers, normalised fields)
		f := c11WriteFormats[r.Intn(len(c11WriteFormats))]
		if b, err := gen.RenderSafe(f, wd, 2); err == nil {
			if back, perr := reader.New().ParseStream(bytes.NewReader(b)); perr == nil && back != nil && back.NodeList != nil {
				wd = back
			}
		}
	}
	sp.Docs = append(sp.Docs, docToB64(wd))
	g2 := gen.New(r.Int63(), gen.Profile{MaxNodes: maxNodes, Tag: "s"}) // same tag: identifiers overlap with the shared list
	sp.Docs = append(sp.Docs, docToB64(g2.Document("other-doc")))
	ntasks := 1
	if r.Intn(4) != 0 {
		ntasks = 2 + r.Intn(3)
	}
	// swarm: a random subset of kinds is enabled per run
	var enabled []string
	for _, k := range c11Kinds {
		if r.Intn(3) != 0 {
			enabled = append(enabled, k)
		}
	}
	if len(enabled) == 0 || r.Intn(6) == 0 {
		enabled = []string{"NLEqual", "EdgeEqual", "Union", "CopyNL", "CopyNode", "Intersect"}
	}
	for t := 0; t < ntasks; t++ {
		n := 1 + r.Intn(4)
		var ops []Op
		for i := 0; i < n; i++ {
			k := enabled[r.Intn(len(enabled))]
			op := Op{K: k, D: r.Intn(64), D2: r.Intn(3), I: r.Intn(64)}
			if k == "Write" {
				op.F = c11WriteFormats[r.Intn(len(c11WriteFormats))]
				op.I = r.Intn(5)
			}
			ops = append(ops, op)
		}
		sp.Tasks = append(sp.Tasks, ops)
	}
	sc := &core.Scenario{V: 1, Property: "C11", Engine: "concur", VerifSeed: verifSeed, Run: idx, RunSeed: seed}
	if ntasks == 1 {
		sc.Sched = verifsim.Config{Seed: seed, Policy: "serial", MaxSteps: 5000000, MapOrder: "random"}
	} else {
		sc.Sched = genSched(r, seed)
		sc.Sched.MaxSteps = 5000000
	}
	sc.Spec = encodeSpec(sp)
	return sc
}

type c11env struct {
	shared  *sbom.Document
	wdoc    *sbom.Document
	priv    [][]*sbom.NodeList // per task: [clone of shared list, different list]
	persons []*sbom.Person
	extrefs []*sbom.ExternalReference
	viol    [][]core.Violation // per task
}

func collectPersons(ps []*sbom.Person, out *[]*sbom.Person) {
	for _, p := range ps {
		*out = append(*out, p)
		collectPersons(p.Contacts, out)
	}
}

// canonical, order-insensitive description of a node list (results of traversals depend on map order)
func canonNL(nl *sbom.NodeList) string {
	if nl == nil {
		return "<nil>"
	}
	var ns, es []string
	for _, n := range nl.Nodes {
		ns = append(ns, n.Id+"="+gen.HashHex(gen.Dump(n)))
	}
	for _, e := range nl.Edges {
		to := append([]string{}, e.To...)
		sort.Strings(to)
		es = append(es, fmt.Sprintf("%s-%d->%s", e.From, e.Type, strings.Join(to, ",")))
	}
	rs := append([]string{}, nl.RootElements...)
	sort.Strings(ns)
	sort.Strings(es)
	sort.Strings(rs)
	return gen.HashHex(strings.Join(ns, ";") + "|" + strings.Join(es, ";") + "|" + strings.Join(rs, ";"))
}

func nodeIDs(ns []*sbom.Node) string {
	var ids []string
	for _, n := range ns {
		if n == nil {
			ids = append(ids, "<nil>")
		} else {
			ids = append(ids, n.Id)
		}
	}
	return strings.Join(ids, ",")
}

func (env *c11env) node(i int) *sbom.Node {
	ns := env.shared.NodeList.Nodes
	if len(ns) == 0 {
		return &sbom.Node{Id: "none"}
	}
	return ns[i%len(ns)]
}

func (env *c11env) edge(i int) *sbom.Edge {
	es := env.shared.NodeList.Edges
	if len(es) == 0 {
		return &sbom.Edge{From: "none"}
	}
	return es[i%len(es)]
}

// doOp performs one read-only operation and renders its result canonically.
func (env *c11env) doOp(task int, op Op) string {
	nl := env.shared.NodeList
	switch op.K {
	case "NLEqual":
		var o *sbom.NodeList
		switch op.D2 {
		case 0:
			o = nl
		default:
			o = env.priv[task][op.D2-1]
		}
		return fmt.Sprint(nl.Equal(o))
	case "NodeEqual":
		return fmt.Sprint(env.node(op.D).Equal(env.node(op.I)))
	case "EdgeEqual":
		return fmt.Sprint(env.edge(op.D).Equal(env.edge(op.I)))
	case "Checksum":
		return env.node(op.D).Checksum()
	case "Diff":
		d := env.node(op.D).Diff(env.node(op.I))
		if d == nil {
			return "nil"
		}
		return fmt.Sprintf("%d:%s:%s", d.DiffCount, gen.HashHex(gen.Dump(d.Added)), gen.HashHex(gen.Dump(d.Removed)))
	case "CopyNode":
		return gen.HashHex(gen.Dump(env.node(op.D).Copy()))
	case "CopyEdge":
		return gen.HashHex(gen.Dump(env.edge(op.D).Copy()))
	case "CopyPerson":
		if len(env.persons) == 0 {
			return "none"
		}
		return gen.HashHex(gen.Dump(env.persons[op.D%len(env.persons)].Copy()))
	case "CopyExtRef":
		if len(env.extrefs) == 0 {
			return "none"
		}
		return gen.HashHex(gen.Dump(env.extrefs[op.D%len(env.extrefs)].Copy()))
	case "CopyNL":
		return canonNL(nl.Copy())
	case "GetNodeByID":
		id := env.node(op.D).Id
		if op.I%5 == 0 {
			id = "no-such-node"
		}
		n := nl.GetNodeByID(id)
		if n == nil {
			return "nil"
		}
		return n.Id
	case "GetNodesByName":
		return nodeIDs(nl.GetNodesByName(env.node(op.D).Name))
	case "GetNodesByIdentifier":
		n := env.node(op.D)
		if v, ok := n.Identifiers[int32(sbom.SoftwareIdentifierType_PURL)]; ok {
			return nodeIDs(nl.GetNodesByIdentifier("purl", v))
		}
		return nodeIDs(nl.GetNodesByIdentifier("purl", "pkg:none"))
	case "GetNodesByPurlType":
		return canonNL(nl.GetNodesByPurlType([]string{"generic", "deb", "npm"}[op.D%3]))
	case "GetRootNodes":
		return nodeIDs(nl.GetRootNodes())
	case "DocGetRootNodes":
		return nodeIDs(env.shared.GetRootNodes())
	case "GetMatchingNode":
		n, err := nl.GetMatchingNode(env.node(op.D))
		if err != nil {
			return "err"
		}
		if n == nil {
			return "nil"
		}
		return n.Id
	case "GetEdgeByType":
		e := env.edge(op.D)
		g := nl.GetEdgeByType(e.From, e.Type)
		if g == nil {
			return "nil"
		}
		return gen.HashHex(gen.Dump(g))
	case "NodeGraph":
		return canonNL(nl.NodeGraph(env.node(op.D).Id))
	case "NodeSiblings":
		return canonNL(nl.NodeSiblings(env.node(op.D).Id))
	case "NodeDescendants":
		return canonNL(nl.NodeDescendants(env.node(op.D).Id, 1+op.I%4))
	case "Union", "Intersect":
		var o *sbom.NodeList
		switch op.D2 {
		case 0:
			o = nl
		default:
			o = env.priv[task][op.D2-1]
		}
		if op.K == "Union" {
			return canonNL(nl.Union(o))
		}
		return canonNL(nl.Intersect(o))
	case "Purl":
		return string(env.node(op.D).Purl())
	case "HashesMatch":
		return fmt.Sprint(env.node(op.D).HashesMatch(env.node(op.I).Hashes))
	case "PointsTo":
		return fmt.Sprint(env.edge(op.D).PointsTo(env.node(op.I).Id))
	case "PersonStr":
		if len(env.persons) == 0 {
			return "none"
		}
		return env.persons[op.D%len(env.persons)].ToSPDX2ClientString()
	case "PersonOrg":
		if len(env.persons) == 0 {
			return "none"
		}
		return env.persons[op.D%len(env.persons)].ToSPDX2ClientOrg()
	case "Write":
		w := writer.New()
		s := &sink{}
		err := w.WriteStreamWithOptions(env.wdoc, s, &writer.Options{Format: formats.Format(op.F),
			RenderOptions: &native.RenderOptions{Indent: op.I}, SerializeOptions: &native.SerializeOptions{}})
		return writeOutcome(s, err)
	}
	return "unknown-op"
}

// firstDiff names the first line (field path) at which two dumps differ.
func firstDiff(a, b string) string {
	la, lb := strings.Split(a, "\n"), strings.Split(b, "\n")
	for i := 0; i < len(la) && i < len(lb); i++ {
		if la[i] != lb[i] {
			p := la[i]
			if j := strings.IndexAny(p, "=#"); j >= 0 {
				p = p[:j]
			}
			// strip indices so that the signature names the field, not the element
			var sb strings.Builder
			depth := 0
			for _, c := range p {
				switch {
				case c == '[':
					depth++
				case c == ']':
					depth--
				case depth == 0:
					sb.WriteRune(c)
				}
			}
			return sb.String()
		}
	}
	return "length"
}

func c11Inventory() (unlisted []string) {
	b, err := os.ReadFile(os.Getenv("VERIF_WORK") + "/overlay/report.json")
	if err != nil {
		return nil
	}
	var rep struct {
		Inv []string `json:"sbom_inventory"`
	}
	if json.Unmarshal(b, &rep) != nil {
		return nil
	}
	known := map[string]bool{}
	for _, v := range c11ReadOnly {
		known[v] = true
	}
	for _, v := range c11Mutators {
		known[v] = true
	}
	for _, m := range rep.Inv {
		if strings.Contains(m, ".") && !known[m] {
			unlisted = append(unlisted, m)
		}
	}
	return
}

func execC11(sc *core.Scenario) *core.Result {
	res := &core.Result{}
	sp, err := decodeSpec(sc)
	if err != nil {
		res.Harness = err.Error()
		return res
	}
	env := &c11env{shared: docFromB64(sp.Docs[0]), wdoc: docFromB64(sp.Docs[1])}
	other := docFromB64(sp.Docs[2])
	if sc.Run%2 == 1 {
		// lists with spare capacity, as repeated appends leave (decoding gives len == cap for short lists)
		growEmpty = sc.Run%4 == 3
		growSlices(reflect.ValueOf(env.shared), 0)
		growSlices(reflect.ValueOf(env.wdoc), 0)
	}
	if env.shared.NodeList == nil {
		env.shared.NodeList = &sbom.NodeList{}
	}
	for _, n := range env.shared.NodeList.Nodes {
		collectPersons(n.Suppliers, &env.persons)
		collectPersons(n.Originators, &env.persons)
		env.extrefs = append(env.extrefs, n.ExternalReferences...)
	}
	for range sp.Tasks {
		env.priv = append(env.priv, []*sbom.NodeList{proto.Clone(env.shared.NodeList).(*sbom.NodeList), proto.Clone(other.NodeList).(*sbom.NodeList)})
		env.viol = append(env.viol, nil)
	}
	verifsim.ClockSet(baseClock)
	writer.New() // writer registry initialisation is C17's subject; here it happens before the tasks start

	recs := mkRecs(sp.Tasks)
	core.RaceMark()
	sr := runTasks(sc.Sched, recs, func(rec *opRec) func() string {
		op := rec.Op
		task := rec.Task
		return func() string {
			before := gen.Dump(env.shared)
			beforeH := gen.DumpHidden(env.shared)
			beforeW, beforeWH := "", ""
			if op.K == "Write" {
				beforeW = gen.Dump(env.wdoc)
				beforeWH = gen.DumpHidden(env.wdoc)
			}
			var beforeP string
			var pv *sbom.NodeList
			if (op.K == "NLEqual" || op.K == "Union" || op.K == "Intersect") && op.D2 > 0 {
				pv = env.priv[task][op.D2-1]
				beforeP = gen.Dump(pv)
			}
			out := env.doOp(task, op)
			check := func(what, b, a string) {
				if a != b {
					path := firstDiff(b, a)
					env.viol[task] = append(env.viol[task], core.Violation{Sig: fmt.Sprintf("mut:%s:%s", c11ReadOnly[op.K], path),
						Detail: fmt.Sprintf("%s changed its %s: field %s differs between the snapshot taken before the call and the one taken after it", c11ReadOnly[op.K], what, path)})
				}
			}
			check("receiver/shared document", before, gen.Dump(env.shared))
			checkHidden := func(what, b, a string) {
				if a != b {
					env.viol[task] = append(env.viol[task], core.Violation{Sig: fmt.Sprintf("mut:%s:beyond-length", c11ReadOnly[op.K]),
						Detail: fmt.Sprintf("%s wrote into its %s beyond the length of a list (between length and capacity): before %q, after %q", c11ReadOnly[op.K], what, b, a)})
				}
			}
			checkHidden("receiver/shared document", beforeH, gen.DumpHidden(env.shared))
			if beforeW != "" {
				check("document", beforeW, gen.Dump(env.wdoc))
				checkHidden("document", beforeWH, gen.DumpHidden(env.wdoc))
			}
			if pv != nil {
				check("argument", beforeP, gen.Dump(pv))
			}
			return out
		}
	})
	nraces := core.RaceDelta()
	res.Sched = sr
	res.Ops = countOps(recs)
	core.AttachRaces(res, nraces)
	abortViolations(res, sr, recs, "abort")
	for _, vs := range env.viol {
		for _, v := range vs {
			res.Violate(v.Sig, v.Detail)
		}
	}
	res.Outcomes = outcomesOf(recs)
	h := sr.LogHash
	for _, o := range res.Outcomes {
		h = h*1099511628211 ^ core.HashStr(o)
	}
	res.LogHash = fmt.Sprintf("%016x", h)
	res.Nontrivial = sr.InOpSw > 0 || len(sp.Tasks) == 1
	res.Key = fmt.Sprintf("%016x-%016x", core.HashStr(string(sc.Spec)), sr.IlvHash)
	res.States = []string{gen.HashHex(gen.Dump(env.shared))}
	res.Extra = map[string]int{}
	for _, list := range recs {
		for _, r := range list {
			res.Extra["op:"+c11ReadOnly[r.Op.K]]++
		}
	}
	if sc.Run%97 == 0 {
		for _, u := range c11Inventory() {
			res.Extra["not-exercised (neither in the read-only table nor a mutator): "+u] = 1
		}
		res.Sample = map[string]any{"run": sc.Run, "policy": sc.Sched.Policy, "nodes": len(env.shared.NodeList.Nodes), "edges": len(env.shared.NodeList.Edges),
			"roots": env.shared.NodeList.RootElements, "tasks": sp.Tasks, "outcomes": res.Outcomes, "in_op_switches": sr.InOpSw}
	}
	return res
}
