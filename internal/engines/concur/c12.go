package concur

import (
	"fmt"
	"math/rand"
	"reflect"
	"sort"
	"strings"

	"github.com/protobom/protobom/pkg/sbom"
	verifsim "github.com/protobom/protobom/pkg/verifsim"
	"google.golang.org/protobuf/proto"
	"google.golang.org/protobuf/reflect/protoreflect"

	"verif/internal/core"
	"verif/internal/gen"
)

// C12: copies and combined results share no mutable state with their sources.
//
// A heap of live values; Copy/Union/Intersect add slots; mutate(v, path) changes
// one place of one value, enumerated by reflection over every field of every
// message type at every nesting level. Reference model: for every slot an
// independent deep value (proto.Clone of what the implementation returned when
// the slot was created); a mutation is applied to the slot's own model only.
// After every step every live value must equal its model.

type mstep struct {
	Field protoreflect.FieldNumber
	Idx   int    // list index (-1: not a list step)
	Key   string // map key rendered (for map steps)
	IsMap bool
}

type mutation struct {
	Path []mstep
	Act  string // set | overwrite | append | mapset | mapdel | mapover
	Desc string
}

// enumerate lists every mutation point of m, deterministically.
func enumerate(m protoreflect.Message, prefix []mstep, desc string, depth int, out *[]mutation) {
	fds := m.Descriptor().Fields()
	for i := 0; i < fds.Len(); i++ {
		fd := fds.Get(i)
		d := desc + "." + string(fd.Name())
		base := append(append([]mstep{}, prefix...), mstep{Field: fd.Number(), Idx: -1})
		switch {
		case fd.IsMap():
			*out = append(*out, mutation{base, "mapset", d})
			mp := m.Get(fd).Map()
			var keys []string
			kmap := map[string]protoreflect.MapKey{}
			mp.Range(func(k protoreflect.MapKey, v protoreflect.Value) bool {
				ks := fmt.Sprint(k.Interface())
				keys = append(keys, ks)
				kmap[ks] = k
				return true
			})
			sort.Strings(keys)
			for _, ks := range keys {
				st := append(append([]mstep{}, prefix...), mstep{Field: fd.Number(), Idx: -1, Key: ks, IsMap: true})
				*out = append(*out, mutation{st, "mapover", d + "[k]"}, mutation{st, "mapdel", d + "[k]"})
				if fd.MapValue().Kind() == protoreflect.MessageKind && depth < 6 {
					enumerate(mp.Get(kmap[ks]).Message(), st, d+"[k]", depth+1, out)
				}
			}
		case fd.IsList():
			*out = append(*out, mutation{base, "append", d})
			l := m.Get(fd).List()
			for j := 0; j < l.Len(); j++ {
				st := append(append([]mstep{}, prefix...), mstep{Field: fd.Number(), Idx: j})
				if fd.Kind() == protoreflect.MessageKind {
					if depth < 6 {
						enumerate(l.Get(j).Message(), st, d+"[i]", depth+1, out)
					}
				} else {
					*out = append(*out, mutation{st, "overwrite", d + "[i]"})
				}
			}
		case fd.Kind() == protoreflect.MessageKind:
			if m.Has(fd) && depth < 6 {
				enumerate(m.Get(fd).Message(), base, d, depth+1, out)
			}
		default:
			*out = append(*out, mutation{base, "set", d})
		}
	}
}

func freshScalar(fd protoreflect.FieldDescriptor, old protoreflect.Value, ctr int) protoreflect.Value {
	switch fd.Kind() {
	case protoreflect.StringKind:
		return protoreflect.ValueOfString(fmt.Sprintf("mut-%d", ctr))
	case protoreflect.BoolKind:
		return protoreflect.ValueOfBool(!old.Bool())
	case protoreflect.EnumKind:
		vals := fd.Enum().Values()
		n := vals.Get(ctr % vals.Len()).Number()
		if n == old.Enum() {
			n = vals.Get((ctr + 1) % vals.Len()).Number()
		}
		return protoreflect.ValueOfEnum(n)
	case protoreflect.Int32Kind, protoreflect.Sint32Kind, protoreflect.Sfixed32Kind:
		return protoreflect.ValueOfInt32(int32(100000 + ctr))
	case protoreflect.Int64Kind, protoreflect.Sint64Kind, protoreflect.Sfixed64Kind:
		return protoreflect.ValueOfInt64(int64(100000 + ctr))
	case protoreflect.Uint32Kind, protoreflect.Fixed32Kind:
		return protoreflect.ValueOfUint32(uint32(100000 + ctr))
	case protoreflect.Uint64Kind, protoreflect.Fixed64Kind:
		return protoreflect.ValueOfUint64(uint64(100000 + ctr))
	case protoreflect.FloatKind:
		return protoreflect.ValueOfFloat32(float32(ctr))
	case protoreflect.DoubleKind:
		return protoreflect.ValueOfFloat64(float64(ctr))
	case protoreflect.BytesKind:
		return protoreflect.ValueOfBytes([]byte(fmt.Sprintf("mut-%d", ctr)))
	}
	return old
}

func mapKeyOf(fd protoreflect.FieldDescriptor, ks string, ctr int) protoreflect.MapKey {
	switch fd.MapKey().Kind() {
	case protoreflect.StringKind:
		return protoreflect.ValueOfString(ks).MapKey()
	case protoreflect.Int32Kind, protoreflect.Sint32Kind, protoreflect.Sfixed32Kind:
		var v int32
		fmt.Sscan(ks, &v)
		return protoreflect.ValueOfInt32(v).MapKey()
	case protoreflect.Int64Kind, protoreflect.Sint64Kind, protoreflect.Sfixed64Kind:
		var v int64
		fmt.Sscan(ks, &v)
		return protoreflect.ValueOfInt64(v).MapKey()
	case protoreflect.Uint32Kind, protoreflect.Fixed32Kind:
		var v uint32
		fmt.Sscan(ks, &v)
		return protoreflect.ValueOfUint32(v).MapKey()
	case protoreflect.Uint64Kind, protoreflect.Fixed64Kind:
		var v uint64
		fmt.Sscan(ks, &v)
		return protoreflect.ValueOfUint64(v).MapKey()
	case protoreflect.BoolKind:
		return protoreflect.ValueOfBool(ks == "true").MapKey()
	}
	return protoreflect.ValueOfString(ks).MapKey()
}

// apply performs mu on root. It reports false if the path does not exist in root.
func apply(root protoreflect.Message, mu mutation, ctr int) bool {
	m := root
	for i, st := range mu.Path {
		fd := m.Descriptor().Fields().ByNumber(st.Field)
		if fd == nil {
			return false
		}
		last := i == len(mu.Path)-1
		switch {
		case st.IsMap:
			mp := m.Mutable(fd).Map()
			k := mapKeyOf(fd, st.Key, ctr)
			if !mp.Has(k) {
				return false
			}
			if last {
				switch mu.Act {
				case "mapdel":
					mp.Clear(k)
				case "mapover":
					if fd.MapValue().Kind() == protoreflect.MessageKind {
						mp.Set(k, mp.NewValue())
					} else {
						mp.Set(k, freshScalar(fd.MapValue(), mp.Get(k), ctr))
					}
				}
				return true
			}
			m = mp.Get(k).Message()
		case st.Idx >= 0:
			l := m.Mutable(fd).List()
			if st.Idx >= l.Len() {
				return false
			}
			if last {
				l.Set(st.Idx, freshScalar(fd, l.Get(st.Idx), ctr))
				return true
			}
			m = l.Get(st.Idx).Message()
		default:
			if last {
				switch mu.Act {
				case "set":
					m.Set(fd, freshScalar(fd, m.Get(fd), ctr))
				case "append":
					l := m.Mutable(fd).List()
					if fd.Kind() == protoreflect.MessageKind {
						l.Append(l.NewElement())
					} else {
						var zero protoreflect.Value
						switch fd.Kind() {
						case protoreflect.StringKind:
							zero = protoreflect.ValueOfString("")
						case protoreflect.EnumKind:
							zero = protoreflect.ValueOfEnum(0)
						default:
							zero = fd.Default()
						}
						l.Append(freshScalar(fd, zero, ctr))
					}
				case "mapset":
					mp := m.Mutable(fd).Map()
					k := mapKeyOf(fd, fmt.Sprint(7000+ctr), ctr)
					if fd.MapKey().Kind() == protoreflect.StringKind {
						k = protoreflect.ValueOfString(fmt.Sprintf("mutkey-%d", ctr)).MapKey()
					}
					if fd.MapValue().Kind() == protoreflect.MessageKind {
						mp.Set(k, mp.NewValue())
					} else {
						mp.Set(k, freshScalar(fd.MapValue(), fd.MapValue().Default(), ctr))
					}
				}
				return true
			}
			if !m.Has(fd) {
				return false
			}
			m = m.Mutable(fd).Message()
		}
	}
	return false
}

// allocateEmpties turns unset map and list fields into empty, allocated ones (what the
// constructors NewNode, NewEdge, NewNodeList produce, and what decoding never produces).
func allocateEmpties(m protoreflect.Message, depth int) {
	fds := m.Descriptor().Fields()
	for i := 0; i < fds.Len(); i++ {
		fd := fds.Get(i)
		switch {
		case fd.IsMap():
			mp := m.Mutable(fd).Map()
			if mp.Len() == 0 {
				// Mutable allocates; set and clear a key so that the allocation survives
				var k protoreflect.MapKey
				switch fd.MapKey().Kind() {
				case protoreflect.StringKind:
					k = protoreflect.ValueOfString("").MapKey()
				case protoreflect.Int32Kind, protoreflect.Sint32Kind, protoreflect.Sfixed32Kind:
					k = protoreflect.ValueOfInt32(0).MapKey()
				default:
					continue
				}
				if fd.MapValue().Kind() == protoreflect.MessageKind {
					continue
				}
				mp.Set(k, fd.MapValue().Default())
				mp.Clear(k)
			} else if fd.MapValue().Kind() == protoreflect.MessageKind && depth < 6 {
				mp.Range(func(_ protoreflect.MapKey, v protoreflect.Value) bool {
					allocateEmpties(v.Message(), depth+1)
					return true
				})
			}
		case fd.IsList():
			l := m.Mutable(fd).List()
			if fd.Kind() == protoreflect.MessageKind && depth < 6 {
				for j := 0; j < l.Len(); j++ {
					allocateEmpties(l.Get(j).Message(), depth+1)
				}
			}
		case fd.Kind() == protoreflect.MessageKind:
			if m.Has(fd) && depth < 6 {
				allocateEmpties(m.Mutable(fd).Message(), depth+1)
			}
		}
	}
}

// emptyMapValues adds entries with an empty value to the string-valued maps (both unserializers produce them).
func emptyMapValues(m proto.Message) {
	node := func(n *sbom.Node) {
		if n.Hashes == nil {
			n.Hashes = map[int32]string{}
		}
		n.Hashes[int32(sbom.HashAlgorithm_SHA512)] = ""
		n.Hashes[int32(sbom.HashAlgorithm_MD5)] = ""
		if n.Identifiers == nil {
			n.Identifiers = map[int32]string{}
		}
		n.Identifiers[int32(sbom.SoftwareIdentifierType_CPE22)] = ""
		for _, er := range n.ExternalReferences {
			if er.Hashes == nil {
				er.Hashes = map[int32]string{}
			}
			er.Hashes[int32(sbom.HashAlgorithm_SHA1)] = ""
		}
	}
	switch v := m.(type) {
	case *sbom.Node:
		node(v)
	case *sbom.NodeList:
		for i, n := range v.Nodes {
			if i%2 == 0 {
				node(n)
			}
		}
	case *sbom.ExternalReference:
		if v.Hashes == nil {
			v.Hashes = map[int32]string{}
		}
		v.Hashes[int32(sbom.HashAlgorithm_SHA1)] = ""
	}
}

// shareContacts makes one *Person reachable through two paths of the same value.
func shareContacts(m proto.Message) {
	link := func(ps []*sbom.Person, qs []*sbom.Person) {
		if len(ps) == 0 || len(qs) == 0 {
			return
		}
		shared := &sbom.Person{Name: "shared-contact", Email: "shared@example.com", Contacts: []*sbom.Person{{Name: "below-shared"}}}
		ps[0].Contacts = append(ps[0].Contacts, shared)
		qs[len(qs)-1].Contacts = append(qs[len(qs)-1].Contacts, shared)
	}
	node := func(n *sbom.Node) {
		link(n.Suppliers, n.Originators)
		if len(n.Suppliers) >= 2 {
			link(n.Suppliers[:1], n.Suppliers[1:])
		}
		if len(n.Suppliers) == 1 && len(n.Originators) == 0 {
			p := n.Suppliers[0]
			shared := &sbom.Person{Name: "shared-contact", Contacts: []*sbom.Person{{Name: "below-shared"}}}
			p.Contacts = append(p.Contacts, shared, &sbom.Person{Name: "sibling", Contacts: []*sbom.Person{shared}})
		}
	}
	switch v := m.(type) {
	case *sbom.Node:
		node(v)
	case *sbom.NodeList:
		for _, n := range v.Nodes {
			node(n)
		}
	case *sbom.Person:
		shared := &sbom.Person{Name: "shared-contact", Contacts: []*sbom.Person{{Name: "below-shared"}}}
		v.Contacts = append(v.Contacts, shared, &sbom.Person{Name: "sibling", Contacts: []*sbom.Person{shared}})
	}
}

// clipSlices reslices every slice reachable from v to its exact length.
func clipSlices(v reflect.Value, depth int) { walkSlices(v, depth, false) }

// growSlices gives every non-empty slice reachable from v spare capacity.
func growSlices(v reflect.Value, depth int) { walkSlices(v, depth, true) }

// growEmpty: empty lists get spare capacity too (set per run)
var growEmpty bool

func walkSlices(v reflect.Value, depth int, grow bool) {
	if depth > 8 {
		return
	}
	switch v.Kind() {
	case reflect.Ptr:
		if !v.IsNil() {
			walkSlices(v.Elem(), depth+1, grow)
		}
	case reflect.Struct:
		for i := 0; i < v.NumField(); i++ {
			f := v.Field(i)
			if !v.Type().Field(i).IsExported() || !f.CanSet() {
				continue
			}
			walkSlices(f, depth+1, grow)
		}
	case reflect.Slice:
		if v.Type().Elem().Kind() == reflect.Uint8 {
			return
		}
		if grow && growEmpty && v.Len() == 0 {
			// an emptied list (l = l[:0]) or make(T, 0, n): no elements, spare capacity
			v.Set(reflect.MakeSlice(v.Type(), 0, 3))
			return
		}
		if v.IsNil() {
			return
		}
		n := v.Len()
		if grow && n > 0 {
			nv := reflect.MakeSlice(v.Type(), n, n+3)
			reflect.Copy(nv, v)
			v.Set(nv)
		} else if !grow {
			v.Set(v.Slice3(0, n, n))
		}
		for i := 0; i < n; i++ {
			walkSlices(v.Index(i), depth+1, grow)
		}
	case reflect.Map:
		for _, k := range v.MapKeys() {
			e := v.MapIndex(k)
			if e.Kind() == reflect.Ptr {
				walkSlices(e, depth+1, grow)
			}
		}
	}
}

// ---- heap ----

type slotVal struct {
	kind     string // node edge person extref nodelist
	v        proto.Message
	model    proto.Message
	producer string // seed | Node.Copy | ... | NodeList.Union
	sources  []int
	mdump    string // cached dump of the model ("" = stale)
}

func kindOf(m proto.Message) string {
	switch m.(type) {
	case *sbom.Node:
		return "node"
	case *sbom.Edge:
		return "edge"
	case *sbom.Person:
		return "person"
	case *sbom.ExternalReference:
		return "extref"
	case *sbom.NodeList:
		return "nodelist"
	}
	// any other message type of the schema (only used when that type has a Copy method)
	return "msg:" + string(m.ProtoReflect().Descriptor().FullName())
}

// otherCopyable lists message types of the schema, beyond the five the property names, that have a
// Copy method returning their own type (none on the tree this was written for; discovered by reflection,
// so copy helpers added later are held to the same independence).
func otherCopyable() []proto.Message {
	var out []proto.Message
	for _, m := range []proto.Message{&sbom.Document{}, &sbom.Metadata{}, &sbom.Tool{}, &sbom.DocumentType{}} {
		if copyMethod(m).IsValid() {
			out = append(out, m)
		}
	}
	return out
}

func copyMethod(m proto.Message) reflect.Value {
	mv := reflect.ValueOf(m).MethodByName("Copy")
	if !mv.IsValid() || mv.Type().NumIn() != 0 || mv.Type().NumOut() != 1 || mv.Type().Out(0) != reflect.TypeOf(m) {
		return reflect.Value{}
	}
	return mv
}

func valFrom(v Val) proto.Message {
	var m proto.Message
	switch v.Kind {
	case "node":
		m = &sbom.Node{}
	case "edge":
		m = &sbom.Edge{}
	case "person":
		m = &sbom.Person{}
	case "extref":
		m = &sbom.ExternalReference{}
	case "nodelist", "":
		m = &sbom.NodeList{}
	default:
		for _, c := range []proto.Message{&sbom.Document{}, &sbom.Metadata{}, &sbom.Tool{}, &sbom.DocumentType{}} {
			if kindOf(c) == v.Kind {
				m = c
			}
		}
		if m == nil {
			panic("c12: unknown value kind in scenario: " + v.Kind)
		}
	}
	if err := proto.Unmarshal(unb64(v.PB), m); err != nil {
		panic("c12: bad value in scenario")
	}
	return m
}

func valTo(m proto.Message) Val {
	b, err := proto.MarshalOptions{Deterministic: true}.Marshal(m)
	if err != nil {
		panic(err)
	}
	return Val{Kind: kindOf(m), PB: b64(b)}
}

func genC12(verifSeed int64, tier string, idx int) *core.Scenario {
	seed := core.SplitMix(uint64(verifSeed), uint64(idx)*2654435761+12)
	r := rand.New(rand.NewSource(int64(seed)))
	sp := &Spec{}
	maxNodes := 4
	if tier == "thorough" && r.Intn(5) == 0 {
		maxNodes = 15
	}
	g := gen.New(r.Int63(), gen.Profile{MaxNodes: maxNodes, Tag: "h"})
	g2 := gen.New(r.Int63(), gen.Profile{MaxNodes: maxNodes, Tag: "h"})
	nlA, nlB := g.NodeList(), g2.NodeList()
	if len(nlA.Nodes) > 0 {
		n := nlA.Nodes[0]
		n.Suppliers = append(n.Suppliers, g.Person(0))
		n.PrimaryPurpose = append(n.PrimaryPurpose, sbom.Purpose_LIBRARY, sbom.Purpose_CONTAINER)
	}
	sp.Vals = []Val{valTo(nlA), valTo(nlB), valTo(g.Node("solo-node")), valTo(g.Person(0)),
		valTo(&sbom.ExternalReference{Url: "https://x.example/r", Comment: "c", Authority: "a", Type: sbom.ExternalReference_VCS, Hashes: map[int32]string{1: "aa", 3: "bb"}}),
		valTo(&sbom.Edge{Type: sbom.Edge_contains, From: "hn0", To: []string{"hn2", "hn1", "hn3"}})}
	if len(nlA.Edges) > 0 {
		sp.Vals = append(sp.Vals, valTo(nlA.Edges[0]))
	}
	if len(nlA.Nodes) > 0 {
		sp.Vals = append(sp.Vals, valTo(nlA.Nodes[len(nlA.Nodes)-1]))
	}
	for _, m := range otherCopyable() {
		g.Fill(m.ProtoReflect(), 0)
		sp.Vals = append(sp.Vals, valTo(m))
	}
	nslots := len(sp.Vals)
	shape := "history"
	if r.Intn(3) == 0 {
		shape = "two-task"
	}
	sp.Shape = shape
	build := func(n int) []Op {
		var ops []Op
		for i := 0; i < n; i++ {
			switch k := r.Intn(10); {
			case k < 4:
				ops = append(ops, Op{K: "Copy", D: r.Intn(nslots)})
				nslots++
			case k < 6:
				ops = append(ops, Op{K: "Union", D: r.Intn(nslots), D2: r.Intn(nslots)})
				nslots++
			case k < 8:
				ops = append(ops, Op{K: "Intersect", D: r.Intn(nslots), D2: r.Intn(nslots)})
				nslots++
			default:
				ops = append(ops, Op{K: "Mut", D: r.Intn(nslots), I: r.Intn(1 << 20)})
			}
		}
		return ops
	}
	if shape == "history" {
		ops := build(3 + r.Intn(13))
		// exhaustive path enumeration on some derived slots
		for j := 0; j < 1+r.Intn(3); j++ {
			ops = append(ops, Op{K: "MutAll", D: r.Intn(nslots)})
		}
		sp.Tasks = [][]Op{ops}
	} else {
		// prefix built sequentially (task list 0 is executed before the fork), then
		// task A mutates every path of derived values while task B reads the sources
		pre := build(2 + r.Intn(5))
		var a, b []Op
		for j := 0; j < 1+r.Intn(3); j++ {
			a = append(a, Op{K: "MutAll", D: r.Intn(nslots), I: 1}) // I=1: derived slots only
		}
		for j := 0; j < 2+r.Intn(4); j++ {
			b = append(b, Op{K: "Read", D: r.Intn(nslots)})
		}
		sp.Tasks = [][]Op{pre, a, b}
	}
	sc := &core.Scenario{V: 1, Property: "C12", Engine: "concur", VerifSeed: verifSeed, Run: idx, RunSeed: seed}
	if shape == "history" {
		sc.Sched = verifsim.Config{Seed: seed, Policy: "serial", MaxSteps: 8000000, MapOrder: "random"}
	} else {
		sc.Sched = genSched(r, seed)
		sc.Sched.MaxSteps = 8000000
	}
	sc.Spec = encodeSpec(sp)
	return sc
}

type c12env struct {
	heap    []*slotVal
	viol    []core.Violation
	violB   []core.Violation // written by the reading task of the two-task shape only
	probes  map[string]int
	ctr     int
	mutated map[int]bool // slots under mutation by task A (two-task shape)
}

func (env *c12env) violate(sig, detail string) {
	for _, v := range env.viol {
		if v.Sig == sig {
			return
		}
	}
	env.viol = append(env.viol, core.Violation{Sig: sig, Detail: detail})
}

func (env *c12env) add(v proto.Message, producer string, sources ...int) int {
	env.heap = append(env.heap, &slotVal{kind: kindOf(v), v: v, model: proto.Clone(v), producer: producer, sources: sources})
	return len(env.heap) - 1
}

func stripIdx(p string) string {
	var sb strings.Builder
	depth := 0
	for _, c := range p {
		switch {
		case c == '[':
			depth++
		case c == ']':
			depth--
		case depth == 0:
			sb.WriteRune(c)
		}
	}
	return sb.String()
}

// checkAll compares every live value with its model. actor: the slot the step
// wrote to (-1: none, the step was a constructor call); op: the step's name.
func (env *c12env) checkAll(op string, actor int, skip map[int]bool) {
	for i, s := range env.heap {
		if skip != nil && skip[i] {
			continue
		}
		if s.mdump == "" {
			s.mdump = gen.Dump(s.model)
		}
		got, want := gen.Dump(s.v), s.mdump
		if got == want {
			continue
		}
		path := firstDiff(want, got)
		// signatures name at most two path components (the field and its parent)
		sp := path
		if parts := strings.Split(strings.TrimPrefix(path, "."), "."); len(parts) > 2 {
			sp = "." + strings.Join(parts[:2], ".")
		}
		var sig, detail string
		switch {
		case actor >= 0 && i == actor:
			// the mutated value differs from its own model: the value contains the same object twice
			// (sharing inside one value, which a deep clone turns into a tree). C12 speaks about two
			// values; resynchronise and count.
			env.probes["value with internal sharing (same object reachable twice)"]++
			s.model, s.mdump = proto.Clone(s.v), ""
			continue
		case actor >= 0:
			link := "indirect"
			a := env.heap[actor]
			for _, src := range a.sources {
				if src == i {
					link = a.producer
				}
			}
			for _, src := range s.sources {
				if src == actor {
					link = s.producer
				}
			}
			if link == "indirect" {
				if a.producer != "seed" {
					link = a.producer
				} else {
					link = s.producer
				}
			}
			sig = fmt.Sprintf("alias:%s:%s", link, sp)
			detail = fmt.Sprintf("mutating slot %d (%s, produced by %s) changed slot %d (%s, produced by %s) at %s: the two values share mutable state", actor, a.kind, a.producer, i, s.kind, s.producer, path)
		case actor == -2:
			sig = "alias:concurrent:" + sp
			detail = fmt.Sprintf("slot %d (%s, produced by %s) changed at %s while another task was mutating a value derived from it or it was derived from", i, s.kind, s.producer, path)
		default:
			sig = fmt.Sprintf("alias:%s:later-call:%s", op, sp)
			detail = fmt.Sprintf("a later call (%s) altered slot %d (%s, produced earlier by %s) at %s", op, i, s.kind, s.producer, path)
		}
		env.violate(sig, detail)
		// resynchronise so that one aliasing defect is reported once per path
		s.model, s.mdump = proto.Clone(s.v), ""
	}
}

func (env *c12env) nodelist(i int) (*sbom.NodeList, int) {
	n := len(env.heap)
	for k := 0; k < n; k++ {
		j := (i + k) % n
		if nl, ok := env.heap[j].v.(*sbom.NodeList); ok {
			return nl, j
		}
	}
	return nil, -1
}

func (env *c12env) step(op Op) string {
	n := len(env.heap)
	switch op.K {
	case "Copy":
		si := op.D % n
		s := env.heap[si]
		var cp proto.Message
		equal := true
		switch v := s.v.(type) {
		case *sbom.Node:
			c := v.Copy()
			cp, equal = c, v.Equal(c)
		case *sbom.Edge:
			c := v.Copy()
			cp, equal = c, v.Equal(c)
		case *sbom.NodeList:
			c := v.Copy()
			cp, equal = c, v.Equal(c)
		case *sbom.Person:
			c := v.Copy()
			cp, equal = c, gen.Dump(v) == gen.Dump(c)
		case *sbom.ExternalReference:
			c := v.Copy()
			cp, equal = c, gen.Dump(v) == gen.Dump(c)
		default:
			cm := copyMethod(s.v)
			if !cm.IsValid() {
				return "no-copy-method"
			}
			c, ok := cm.Call(nil)[0].Interface().(proto.Message)
			if !ok || c == nil || reflect.ValueOf(c).IsNil() {
				return "nil"
			}
			cp, equal = c, gen.DumpNorm(s.v) == gen.DumpNorm(c)
		}
		prod := map[string]string{"node": "Node.Copy", "edge": "Edge.Copy", "person": "Person.Copy", "extref": "ExternalReference.Copy", "nodelist": "NodeList.Copy"}[s.kind]
		if prod == "" {
			prod = string(s.v.ProtoReflect().Descriptor().Name()) + ".Copy"
		}
		if !equal {
			what := ""
			if d1, d2 := gen.Dump(s.v), gen.Dump(cp); d1 != d2 {
				what = " (first difference at " + firstDiff(d1, d2) + ")"
			}
			env.violate("neq:"+prod, fmt.Sprintf("a fresh copy made by %s does not compare equal to its source%s", prod, what))
		}
		if equal {
			// field-by-field: a duplicate carries every field of its source (a copy that satisfies
			// Equal but drops, say, the sub-second part of a date is not a copy)
			// (dates are compared as the instants they denote: copying through time.Time normalises
			// out-of-range seconds/nanos, which changes the representation, not the date)
			if d1, d2 := gen.DumpNorm(s.v), gen.DumpNorm(cp); d1 != d2 {
				env.violate("neq-fields:"+prod, fmt.Sprintf("a fresh copy made by %s differs from its source at %s (field-by-field comparison)", prod, firstDiff(d1, d2)))
			}
		}
		env.add(cp, prod, si)
		env.checkAll(prod, -1, nil)
		return "slot" + fmt.Sprint(len(env.heap)-1)
	case "Union", "Intersect":
		a, ai := env.nodelist(op.D)
		b, bi := env.nodelist(op.D2)
		if a == nil || b == nil {
			return "none"
		}
		var r *sbom.NodeList
		if op.K == "Union" {
			r = a.Union(b)
		} else {
			r = a.Intersect(b)
		}
		if r == nil {
			return "nil"
		}
		for _, s := range env.heap {
			if s.producer == "NodeList."+op.K && len(s.sources) > 0 && s.sources[0] == ai {
				env.probes["second "+strings.ToLower(op.K)+" from the same receiver"]++
			}
		}
		env.add(r, "NodeList."+op.K, ai, bi)
		env.checkAll("NodeList."+op.K, -1, nil)
		return "slot" + fmt.Sprint(len(env.heap)-1)
	case "Mut":
		si := op.D % n
		s := env.heap[si]
		var mus []mutation
		enumerate(s.v.ProtoReflect(), nil, "", 0, &mus)
		if len(mus) == 0 {
			return "no-path"
		}
		mu := mus[op.I%len(mus)]
		env.mutateOne(si, mu)
		env.checkAll("mutate", si, nil)
		return "mut:" + mu.Desc + ":" + mu.Act
	case "MutAll":
		si := op.D % n
		if op.I == 1 {
			// derived slots only
			found := false
			for k := 0; k < n; k++ {
				if env.heap[(si+k)%n].producer != "seed" {
					si = (si + k) % n
					found = true
					break
				}
			}
			if !found {
				return "no-derived-slot"
			}
		}
		s := env.heap[si]
		if env.mutated != nil {
			env.mutated[si] = true
		}
		// enumerate first, then apply every mutation point (paths are re-enumerated as the value changes shape)
		done := 0
		for round := 0; round < 240; round++ {
			var mus []mutation
			enumerate(s.v.ProtoReflect(), nil, "", 0, &mus)
			if round >= len(mus) {
				break
			}
			mu := mus[round]
			if mu.Act == "mapdel" || mu.Act == "append" || mu.Act == "mapset" {
				// shape-changing mutations are applied too, but only once per field to keep the walk finite
				if round > 0 && done > 300 {
					continue
				}
			}
			env.mutateOne(si, mu)
			done++
			// compare after each of the first mutations (exact attribution), then every 16th, and at the end
			if env.mutated == nil && (done <= 24 || done%16 == 0) {
				env.checkAll("mutate", si, nil)
			}
		}
		if env.mutated == nil {
			env.checkAll("mutate", si, nil)
		}
		if s.producer != "seed" && strings.HasPrefix(s.producer, "NodeList.") {
			env.probes["every path of a union/intersection/copy result mutated"]++
		}
		return fmt.Sprintf("mutall:%d", done)
	case "Read":
		// task B of the two-task shape: read a value that task A does not mutate
		si := op.D % n
		for k := 0; k < n; k++ {
			j := (si + k) % n
			if env.heap[j].producer == "seed" {
				si = j
				break
			}
		}
		s := env.heap[si]
		d := gen.Dump(s.v)
		if d != gen.Dump(s.model) {
			path := firstDiff(gen.Dump(s.model), d)
			s.mdump = ""
			env.violB = append(env.violB, core.Violation{Sig: "alias:concurrent:" + path, Detail: fmt.Sprintf("slot %d (%s) changed at %s while another task was mutating values derived from it", si, s.kind, path)})
			s.model = proto.Clone(s.v)
		}
		switch v := s.v.(type) {
		case *sbom.Node:
			return v.Checksum()[:8]
		case *sbom.NodeList:
			return fmt.Sprint(v.Equal(v))
		}
		return gen.HashHex(d)[:8]
	}
	return "unknown-op"
}

func (env *c12env) mutateOne(si int, mu mutation) {
	env.ctr++
	s := env.heap[si]
	okV := apply(s.v.ProtoReflect(), mu, env.ctr)
	okM := apply(s.model.ProtoReflect(), mu, env.ctr)
	s.mdump = ""
	if okV != okM {
		// value and model have different shapes: internal sharing inside the value (see checkAll)
		env.probes["value with internal sharing (same object reachable twice)"]++
		s.model = proto.Clone(s.v)
	}
	if len(mu.Path) > 1 {
		env.probes["mutation of a nested message"]++
	}
	if mu.Act == "mapdel" {
		env.probes["map entry deleted"]++
	}
}

func execC12(sc *core.Scenario) *core.Result {
	res := &core.Result{}
	sp, err := decodeSpec(sc)
	if err != nil {
		res.Harness = err.Error()
		return res
	}
	env := &c12env{probes: map[string]int{}}
	for i, v := range sp.Vals {
		m := valFrom(v)
		if i%2 == 1 || sc.Run%3 == 0 {
			allocateEmpties(m.ProtoReflect(), 0) // values built with NewNode()/NewNodeList() carry empty, non-nil collections
		}
		if sc.Run%3 == 0 {
			emptyMapValues(m) // map entries whose value is the empty string (an algorithm listed without a digest)
		}
		if sc.Run%4 == 1 {
			shareContacts(m) // one person reachable twice inside the value (a DAG, not a tree)
		}
		growEmpty = sc.Run%4 == 3
		if sc.Run%2 == 0 {
			clipSlices(reflect.ValueOf(m), 0) // slices without spare capacity (len == cap), as literals and exact allocations have
		} else {
			growSlices(reflect.ValueOf(m), 0) // slices with spare capacity, as repeated appends leave
		}
		env.add(m, "seed")
	}
	verifsim.ClockSet(baseClock)
	tasks := sp.Tasks
	var preOut []string
	if sp.Shape == "two-task" && len(tasks) == 3 {
		// sequential prefix, outside the simulation
		for _, op := range tasks[0] {
			var out string
			func() {
				defer func() {
					if p := recover(); p != nil {
						cls, msg := classifyPanic(p)
						out = cls
						res.Violate("abort:"+cls+":"+op.K, "operation "+op.String()+" ended in "+cls+": "+firstLine(msg))
					}
				}()
				out = env.step(op)
			}()
			preOut = append(preOut, out)
		}
		tasks = tasks[1:]
		env.mutated = map[int]bool{}
	}
	recs := mkRecs(tasks)
	core.RaceMark()
	sr := runTasks(sc.Sched, recs, func(rec *opRec) func() string {
		op := rec.Op
		return func() string { return env.step(op) }
	})
	nraces := core.RaceDelta()
	res.Sched = sr
	res.Ops = countOps(recs) + len(preOut)
	if sp.Shape == "two-task" {
		core.AttachRacesAs(res, nraces, "alias:concurrent:race")
		// after the join: every value task A did not touch still equals its model
		env.checkAll("mutate", -2, env.mutated)
	}
	abortViolations(res, sr, recs, "abort")
	for _, v := range append(env.viol, env.violB...) {
		if strings.HasPrefix(v.Sig, "harness:") {
			res.Harness = v.Detail
			continue
		}
		res.Violate(v.Sig, v.Detail)
	}
	res.Probes = env.probes
	res.Outcomes = append(preOut, outcomesOf(recs)...)
	h := sr.LogHash
	for _, o := range res.Outcomes {
		h = h*1099511628211 ^ core.HashStr(o)
	}
	res.LogHash = fmt.Sprintf("%016x", h)
	derived := 0
	for _, s := range env.heap {
		if s.producer != "seed" {
			derived++
		}
	}
	res.Nontrivial = derived > 0 && (env.ctr > 0)
	res.Key = fmt.Sprintf("%016x-%016x", core.HashStr(string(sc.Spec)), sr.IlvHash)
	res.Extra = map[string]int{"mutations_applied": env.ctr, "heap_slots": len(env.heap)}
	if sc.Run%97 == 0 {
		res.Sample = map[string]any{"run": sc.Run, "shape": sp.Shape, "tasks": sp.Tasks, "outcomes": res.Outcomes, "mutations_applied": env.ctr}
	}
	return res
}
