#!/bin/sh
# Builds the instrumenter and warms the build cache. Offline.
set -e
cd "$(dirname "$0")"
export GOFLAGS=-mod=mod GOPROXY=off GOSUMDB=off GOTOOLCHAIN=local
mkdir -p bin
(cd simgen && go build -o ../bin/simgen .)
./verif.sh build
