// Package simcrand replaces crypto/rand in instrumented code (entropy comes from the run's PRNG).
package simcrand

import (
	"io"
	"math/big"

	verifsim "github.com/protobom/protobom/pkg/verifsim"
)

type reader struct{}

func (reader) Read(p []byte) (int, error) {
	for i := range p {
		p[i] = byte(verifsim.Rand())
	}
	return len(p), nil
}

var Reader io.Reader = reader{}

func Read(b []byte) (int, error) { return Reader.Read(b) }

func Int(_ io.Reader, max *big.Int) (*big.Int, error) {
	n := new(big.Int).SetUint64(verifsim.Rand())
	return n.Mod(n, max), nil
}

func Text(src string, n int) string {
	b := make([]byte, n)
	for i := range b {
		b[i] = src[int(verifsim.Rand()%uint64(len(src)))]
	}
	return string(b)
}
