//go:build race

package verifsim

import "runtime"

const RaceEnabled = true

//go:norace
func raceDisable() { runtime.RaceDisable() }

//go:norace
func raceEnable() { runtime.RaceEnable() }

// RaceErrors returns the number of race reports so far in this process.
func RaceErrors() int { return runtime.RaceErrors() }
