// Package simioutil replaces io/ioutil in instrumented code.
package simioutil

import (
	"io"
	"io/fs"

	os "github.com/protobom/protobom/pkg/verifsim/simos"
)

var Discard = io.Discard

func ReadAll(r io.Reader) ([]byte, error)               { return io.ReadAll(r) }
func NopCloser(r io.Reader) io.ReadCloser               { return io.NopCloser(r) }
func ReadFile(name string) ([]byte, error)              { return os.ReadFile(name) }
func WriteFile(n string, d []byte, p fs.FileMode) error { return os.WriteFile(n, d, p) }
func TempFile(dir, pattern string) (*os.File, error)    { return os.CreateTemp(dir, pattern) }
func TempDir(dir, pattern string) (string, error)       { return os.MkdirTemp(dir, pattern) }
func ReadDir(dirname string) ([]fs.FileInfo, error) {
	es, err := os.ReadDir(dirname)
	if err != nil {
		return nil, err
	}
	out := make([]fs.FileInfo, 0, len(es))
	for _, e := range es {
		i, err := e.Info()
		if err != nil {
			return nil, err
		}
		out = append(out, i)
	}
	return out, nil
}
