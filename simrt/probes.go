package verifsim

// Rare-condition probes: fixed slots, counted without allocation.
const (
	ProbeOnceRun = iota
	ProbeOnceWait
	ProbeLockBlocked
	ProbeMax = 32
)

var probes [ProbeMax]uint64

//go:norace
func ProbeHit(i int) { probes[i]++ }

//go:norace
func Probes() [ProbeMax]uint64 { return probes }
