package simos

import (
	"errors"
	"io/fs"
	"path"
	"sort"
	"strings"
	"syscall"
	"time"

	verifsim "github.com/protobom/protobom/pkg/verifsim"
)

// Disk is an in-memory POSIX-like file system. All methods are called either
// by the single running task of a simulated run or by the harness between
// runs; there is never real concurrency on a Disk.
type Disk struct {
	MtimeGranularity int64 // ns; 0 = 4ms
	root    *inode
	Cwd     string
	UID     int
	Umask   fs.FileMode
	nextIno int

	// event bookkeeping
	NEvents int      // syscall events so far
	Trace   []Event  // every syscall with its result
	Journal []string // paths whose directory entry or content was modified, in order

	// fault / crash plan (indices refer to NEvents at the time of the syscall)
	Faults  []Fault
	Crash   *CrashPoint
	Crashed bool
	// short-write buggify: split write syscalls into up to MaxWriteSplit pieces
	WriteSplit []int // explicit piece sizes for successive write syscalls (0 = all)
	wsIdx      int
	ReadChunk  int // max bytes returned by one read syscall (0 = unlimited)

	// statistics (what actually fired)
	Fired     map[string]int
	Killer    func() // called on crash; must not return
	stickyCall  string
	stickyFault Fault
	TempNames   uint64 // PRNG state for CreateTemp names
	Quiet     bool   // do not record trace (harness operations)
}

type inode struct {
	ino     int
	dir     bool
	mode    fs.FileMode // permission bits only
	uid     int
	data    []byte
	entries map[string]*inode
	nlink   int
	mtime   int64
}

type Event struct {
	N    int    `json:"n"`
	Call string `json:"call"`
	Path string `json:"path,omitempty"`
	Arg  int    `json:"arg,omitempty"`
	Res  string `json:"res"`
}

// Fault makes syscall number Event fail (or misbehave).
type Fault struct {
	Event int    `json:"event"`
	Kind  string `json:"kind"` // EACCES EIO ENOSPC EMFILE EROFS EINTR SHORT
	Arg   int    `json:"arg,omitempty"`
	// Sticky: once fired, every later system call of the same name fails the same way until the
	// plan is cleared (a condition that persists, e.g. a full or read-only disk: retry loops must end)
	Sticky bool `json:"sticky,omitempty"`
}

// CrashPoint kills the process at syscall number Event: before it, after it,
// or (for write) after Prefix bytes of it have reached the file.
type CrashPoint struct {
	Event  int    `json:"event"`
	When   string `json:"when"` // before | after | torn
	Prefix int    `json:"prefix,omitempty"`
}

func NewDisk(uid int) *Disk {
	d := &Disk{Cwd: "/", UID: uid, Umask: 0o022, Fired: map[string]int{}}
	d.root = &inode{ino: 1, dir: true, mode: 0o755, uid: 0, entries: map[string]*inode{}, nlink: 2}
	d.nextIno = 2
	return d
}

var disk *Disk

// Mount makes d the file system seen by instrumented code (nil unmounts).
func Mount(d *Disk)  { disk = d }
func Mounted() *Disk { return disk }

func errnoName(err error) string {
	if err == nil {
		return "ok"
	}
	var en syscall.Errno
	if errors.As(err, &en) {
		switch en {
		case syscall.ENOENT:
			return "ENOENT"
		case syscall.EACCES:
			return "EACCES"
		case syscall.EEXIST:
			return "EEXIST"
		case syscall.ENOTDIR:
			return "ENOTDIR"
		case syscall.EISDIR:
			return "EISDIR"
		case syscall.ENOSPC:
			return "ENOSPC"
		case syscall.EIO:
			return "EIO"
		case syscall.EMFILE:
			return "EMFILE"
		case syscall.EROFS:
			return "EROFS"
		case syscall.ENOTEMPTY:
			return "ENOTEMPTY"
		case syscall.EINVAL:
			return "EINVAL"
		case syscall.EPERM:
			return "EPERM"
		case syscall.EBADF:
			return "EBADF"
		case syscall.ENAMETOOLONG:
			return "ENAMETOOLONG"
		case syscall.EXDEV:
			return "EXDEV"
		}
		return "E" + en.Error()
	}
	return "err"
}

var faultErrno = map[string]syscall.Errno{
	"EACCES": syscall.EACCES, "EIO": syscall.EIO, "ENOSPC": syscall.ENOSPC, "EMFILE": syscall.EMFILE,
	"EROFS": syscall.EROFS, "EPERM": syscall.EPERM, "ENOENT": syscall.ENOENT,
}

// begin is called at the start of every syscall. It returns the injected
// fault for this event (if any). It handles "crash before".
func (d *Disk) begin(call, p string) (n int, f *Fault) {
	n = d.NEvents
	d.NEvents++
	verifsim.Yield(verifsim.SiteSyscall)
	if d.Crashed {
		// a dead process issues no syscalls; only reachable if Killer returned
		panic("simos: syscall after crash")
	}
	if d.Crash != nil && d.Crash.Event == n && d.Crash.When == "before" {
		d.die(n, call, p, "crash-before")
	}
	for i := range d.Faults {
		if d.Faults[i].Event == n {
			f = &d.Faults[i]
			if f.Sticky {
				d.stickyCall, d.stickyFault = call, Fault{Event: -1, Kind: f.Kind, Arg: f.Arg}
			}
		}
	}
	if f == nil && d.stickyCall != "" && d.stickyCall == call && len(d.Faults) > 0 {
		d.Fired["sticky-repeat"]++
		f = &d.stickyFault
	}
	if len(d.Faults) == 0 {
		d.stickyCall = ""
	}
	return n, f
}

func (d *Disk) end(n int, call, p string, arg int, err error) {
	if !d.Quiet {
		d.Trace = append(d.Trace, Event{n, call, p, arg, errnoName(err)})
	}
	verifsim.Log(0x5c, uint64(n)<<8^uint64(len(call)))
	if d.Crash != nil && d.Crash.Event == n && d.Crash.When == "after" {
		d.die(n, call, p, "crash-after")
	}
}

func (d *Disk) die(n int, call, p, how string) {
	d.Crashed = true
	d.Fired[how]++
	if !d.Quiet {
		d.Trace = append(d.Trace, Event{n, call, p, 0, how})
	}
	if d.Killer != nil {
		d.Killer()
	}
	panic("simos: crash without killer")
}

func (d *Disk) fire(f *Fault) error {
	d.Fired[f.Kind]++
	if e, ok := faultErrno[f.Kind]; ok {
		return e
	}
	return syscall.EIO
}

func (d *Disk) abs(p string) string {
	if p == "" {
		return ""
	}
	if !strings.HasPrefix(p, "/") {
		p = d.Cwd + "/" + p
	}
	return path.Clean(p)
}

func (d *Disk) mayExec(n *inode) bool {
	if d.UID == 0 {
		return true
	}
	if n.uid == d.UID {
		return n.mode&0o100 != 0
	}
	return n.mode&0o001 != 0
}

func (d *Disk) mayRead(n *inode) bool {
	if d.UID == 0 {
		return true
	}
	if n.uid == d.UID {
		return n.mode&0o400 != 0
	}
	return n.mode&0o004 != 0
}

func (d *Disk) mayWrite(n *inode) bool {
	if d.UID == 0 {
		return true
	}
	if n.uid == d.UID {
		return n.mode&0o200 != 0
	}
	return n.mode&0o002 != 0
}

// walk resolves p to (parent directory, final name, inode or nil).
func (d *Disk) walk(p string) (dir *inode, name string, n *inode, err error) {
	if p == "" {
		return nil, "", nil, syscall.ENOENT
	}
	if strings.ContainsRune(p, 0) {
		return nil, "", nil, syscall.EINVAL
	}
	ap := d.abs(p)
	if ap == "/" {
		return nil, "/", d.root, nil
	}
	parts := strings.Split(strings.TrimPrefix(ap, "/"), "/")
	cur := d.root
	for i, part := range parts {
		if len(part) > 255 {
			return nil, "", nil, syscall.ENAMETOOLONG
		}
		if !cur.dir {
			return nil, "", nil, syscall.ENOTDIR
		}
		if !d.mayExec(cur) {
			return nil, "", nil, syscall.EACCES
		}
		next := cur.entries[part]
		if i == len(parts)-1 {
			return cur, part, next, nil
		}
		if next == nil {
			return nil, "", nil, syscall.ENOENT
		}
		cur = next
	}
	return nil, "", nil, syscall.ENOENT
}

func (d *Disk) touch(p string) { d.Journal = append(d.Journal, d.abs(p)) }

// now is the time stamp the file system puts on a modification: the clock at the granularity of the
// file system (kernels stamp with a coarse clock, a few milliseconds; some file systems keep seconds).
func (d *Disk) now() int64 {
	t := verifsim.Now().UnixNano()
	g := d.MtimeGranularity
	if g <= 0 {
		g = 4000000
	}
	return t - t%g
}

// ---- syscalls ----

func (d *Disk) stat(p string) (*inode, error) {
	n, f := d.begin("stat", p)
	var err error
	var in *inode
	if f != nil {
		err = d.fire(f)
	} else {
		_, _, in, err = d.walk(p)
		if err == nil && in == nil {
			err = syscall.ENOENT
		}
	}
	d.end(n, "stat", p, 0, err)
	return in, err
}

func (d *Disk) mkdir(p string, perm fs.FileMode) error {
	n, f := d.begin("mkdir", p)
	var err error
	if f != nil {
		err = d.fire(f)
	} else {
		var dir, in *inode
		var name string
		dir, name, in, err = d.walk(p)
		switch {
		case err != nil:
		case in != nil:
			err = syscall.EEXIST
		case !d.mayWrite(dir):
			err = syscall.EACCES
		default:
			dir.entries[name] = &inode{ino: d.nextIno, dir: true, mode: perm.Perm() &^ d.Umask, uid: d.UID,
				entries: map[string]*inode{}, nlink: 2, mtime: d.now()}
			d.nextIno++
			d.touch(p)
		}
	}
	d.end(n, "mkdir", p, int(perm), err)
	return err
}

const (
	oRDONLY = syscall.O_RDONLY
	oWRONLY = syscall.O_WRONLY
	oRDWR   = syscall.O_RDWR
	oAPPEND = syscall.O_APPEND
	oCREATE = syscall.O_CREAT
	oEXCL   = syscall.O_EXCL
	oTRUNC  = syscall.O_TRUNC
)

func (d *Disk) open(p string, flag int, perm fs.FileMode) (*inode, error) {
	n, f := d.begin("open", p)
	var err error
	var in *inode
	if f != nil {
		err = d.fire(f)
	} else {
		var dir *inode
		var name string
		dir, name, in, err = d.walk(p)
		acc := flag & 3
		switch {
		case err != nil:
		case in == nil && flag&oCREATE == 0:
			err = syscall.ENOENT
		case in == nil:
			if !d.mayWrite(dir) {
				err = syscall.EACCES
				break
			}
			in = &inode{ino: d.nextIno, mode: perm.Perm() &^ d.Umask, uid: d.UID, nlink: 1, mtime: d.now()}
			d.nextIno++
			dir.entries[name] = in
			d.touch(p)
		case flag&oCREATE != 0 && flag&oEXCL != 0:
			err = syscall.EEXIST
			in = nil
		case in.dir && acc != oRDONLY:
			err = syscall.EISDIR
			in = nil
		case (acc == oRDONLY || acc == oRDWR) && !d.mayRead(in):
			err = syscall.EACCES
			in = nil
		case (acc == oWRONLY || acc == oRDWR) && !d.mayWrite(in):
			err = syscall.EACCES
			in = nil
		default:
			if flag&oTRUNC != 0 && acc != oRDONLY && !in.dir {
				if len(in.data) > 0 {
					d.Fired["trunc-existing"]++
				}
				in.data = nil
				in.mtime = d.now()
				d.touch(p)
			}
		}
	}
	d.end(n, "open", p, flag, err)
	return in, err
}

// write performs one write(2): returns bytes written.
func (d *Disk) write(in *inode, p string, off int64, b []byte, appendMode bool) (int, error) {
	n, f := d.begin("write", p)
	want := len(b)
	var err error
	// short write without error: kernel accepted only part
	if d.wsIdx < len(d.WriteSplit) {
		if k := d.WriteSplit[d.wsIdx]; k > 0 && k < want {
			want = k
			d.Fired["short-write"]++
		}
		d.wsIdx++
	}
	if f != nil {
		switch f.Kind {
		case "ENOSPC":
			// the first Arg bytes fit
			d.Fired["ENOSPC"]++
			if f.Arg < want {
				want = f.Arg
			}
			if want < 0 {
				want = 0
			}
			err = syscall.ENOSPC
		case "SHORT":
			d.Fired["short-write"]++
			if f.Arg > 0 && f.Arg < want {
				want = f.Arg
			}
		default:
			err = d.fire(f)
			want = 0
		}
	}
	if d.Crash != nil && d.Crash.Event == n && d.Crash.When == "torn" {
		k := d.Crash.Prefix
		if k > want {
			k = want
		}
		d.apply(in, p, off, b[:k], appendMode)
		d.Fired["torn-write"]++
		d.die(n, "write", p, "crash-torn")
	}
	if want > 0 {
		d.apply(in, p, off, b[:want], appendMode)
	}
	if err != nil && want > 0 {
		// POSIX reports the partial count, the caller sees the error on the next call;
		// Go's poll.FD.Write loops, so model it as: partial data landed, error returned.
	}
	d.end(n, "write", p, want, err)
	return want, err
}

func (d *Disk) apply(in *inode, p string, off int64, b []byte, appendMode bool) {
	if appendMode {
		off = int64(len(in.data))
	}
	end := off + int64(len(b))
	if int64(len(in.data)) < end {
		nd := make([]byte, end)
		copy(nd, in.data)
		in.data = nd
	} else {
		// copy on write so that earlier snapshots stay intact
		in.data = append([]byte{}, in.data...)
	}
	copy(in.data[off:], b)
	in.mtime = d.now()
	d.touch(p)
}

func (d *Disk) read(in *inode, p string, off int64, b []byte) (int, error) {
	n, f := d.begin("read", p)
	var err error
	k := 0
	if f != nil {
		err = d.fire(f)
	} else if off < int64(len(in.data)) {
		k = copy(b, in.data[off:])
		if d.ReadChunk > 0 && k > d.ReadChunk {
			k = d.ReadChunk
		}
	}
	d.end(n, "read", p, k, err)
	return k, err
}

func (d *Disk) simple(call, p string, fn func() error) error {
	n, f := d.begin(call, p)
	var err error
	if f != nil {
		err = d.fire(f)
	} else {
		err = fn()
	}
	d.end(n, call, p, 0, err)
	return err
}

func (d *Disk) rename(oldp, newp string) error {
	return d.simple("rename", oldp+" -> "+newp, func() error {
		od, on, oi, err := d.walk(oldp)
		if err != nil {
			return err
		}
		if oi == nil {
			return syscall.ENOENT
		}
		nd, nn, ni, err := d.walk(newp)
		if err != nil {
			return err
		}
		if od == nil || nd == nil {
			return syscall.EBUSY
		}
		if !d.mayWrite(od) || !d.mayWrite(nd) {
			return syscall.EACCES
		}
		if ni != nil {
			if ni == oi {
				return nil
			}
			if ni.dir && !oi.dir {
				return syscall.EISDIR
			}
			if !ni.dir && oi.dir {
				return syscall.ENOTDIR
			}
			if ni.dir && len(ni.entries) > 0 {
				return syscall.ENOTEMPTY
			}
			ni.nlink--
			d.Fired["rename-over-existing"]++
		}
		nd.entries[nn] = oi
		delete(od.entries, on)
		d.touch(oldp)
		d.touch(newp)
		return nil
	})
}

func (d *Disk) unlink(p string, wantDir bool) error {
	call := "unlink"
	if wantDir {
		call = "rmdir"
	}
	return d.simple(call, p, func() error {
		dir, name, in, err := d.walk(p)
		if err != nil {
			return err
		}
		if in == nil {
			return syscall.ENOENT
		}
		if dir == nil {
			return syscall.EBUSY
		}
		if !d.mayWrite(dir) {
			return syscall.EACCES
		}
		if in.dir && !wantDir {
			return syscall.EISDIR
		}
		if !in.dir && wantDir {
			return syscall.ENOTDIR
		}
		if in.dir && len(in.entries) > 0 {
			return syscall.ENOTEMPTY
		}
		delete(dir.entries, name)
		in.nlink--
		d.touch(p)
		return nil
	})
}

func (d *Disk) link(oldp, newp string) error {
	return d.simple("link", oldp+" -> "+newp, func() error {
		_, _, oi, err := d.walk(oldp)
		if err != nil {
			return err
		}
		if oi == nil {
			return syscall.ENOENT
		}
		if oi.dir {
			return syscall.EPERM
		}
		nd, nn, ni, err := d.walk(newp)
		if err != nil {
			return err
		}
		if ni != nil {
			return syscall.EEXIST
		}
		if !d.mayWrite(nd) {
			return syscall.EACCES
		}
		nd.entries[nn] = oi
		oi.nlink++
		d.touch(newp)
		return nil
	})
}

func (d *Disk) chmod(p string, mode fs.FileMode) error {
	return d.simple("chmod", p, func() error {
		_, _, in, err := d.walk(p)
		if err != nil {
			return err
		}
		if in == nil {
			return syscall.ENOENT
		}
		if d.UID != 0 && in.uid != d.UID {
			return syscall.EPERM
		}
		in.mode = mode.Perm()
		return nil
	})
}

func (d *Disk) truncate(in *inode, p string, size int64) error {
	return d.simple("truncate", p, func() error {
		if in == nil {
			var err error
			_, _, in, err = d.walk(p)
			if err != nil {
				return err
			}
			if in == nil {
				return syscall.ENOENT
			}
			if !d.mayWrite(in) {
				return syscall.EACCES
			}
		}
		if in.dir {
			return syscall.EISDIR
		}
		nd := make([]byte, size)
		copy(nd, in.data)
		in.data = nd
		d.touch(p)
		return nil
	})
}

func (d *Disk) readdir(p string) ([]string, []*inode, error) {
	var names []string
	var nodes []*inode
	err := d.simple("readdir", p, func() error {
		_, _, in, err := d.walk(p)
		if err != nil {
			return err
		}
		if in == nil {
			return syscall.ENOENT
		}
		if !in.dir {
			return syscall.ENOTDIR
		}
		if !d.mayRead(in) {
			return syscall.EACCES
		}
		for k := range in.entries {
			names = append(names, k)
		}
		sort.Strings(names)
		for _, k := range names {
			nodes = append(nodes, in.entries[k])
		}
		return nil
	})
	return names, nodes, err
}

// ---- harness-side helpers (no events, no permission checks) ----

// Put creates or replaces a file (and its parent directories) directly.
func (d *Disk) Put(p string, data []byte, mode fs.FileMode, uid int) {
	ap := d.abs(p)
	parts := strings.Split(strings.TrimPrefix(ap, "/"), "/")
	cur := d.root
	for i, part := range parts {
		last := i == len(parts)-1
		next := cur.entries[part]
		if next == nil {
			if last {
				next = &inode{ino: d.nextIno, mode: mode, uid: uid, nlink: 1}
			} else {
				next = &inode{ino: d.nextIno, dir: true, mode: 0o755, uid: uid, entries: map[string]*inode{}, nlink: 2}
			}
			d.nextIno++
			cur.entries[part] = next
		}
		if last {
			next.data = append([]byte{}, data...)
			next.mode = mode
		}
		cur = next
	}
}

// PutDir creates a directory (and parents) directly.
func (d *Disk) PutDir(p string, mode fs.FileMode, uid int) {
	ap := d.abs(p)
	if ap == "/" {
		return
	}
	parts := strings.Split(strings.TrimPrefix(ap, "/"), "/")
	cur := d.root
	for i, part := range parts {
		next := cur.entries[part]
		if next == nil {
			m := fs.FileMode(0o755)
			if i == len(parts)-1 {
				m = mode
			}
			next = &inode{ino: d.nextIno, dir: true, mode: m, uid: uid, entries: map[string]*inode{}, nlink: 2}
			d.nextIno++
			cur.entries[part] = next
		}
		cur = next
	}
}

// RemoveTree removes a file or a whole directory tree directly (somebody else cleaned up).
func (d *Disk) RemoveTree(p string) bool {
	ap := d.abs(p)
	if ap == "/" {
		return false
	}
	parts := strings.Split(strings.TrimPrefix(strings.TrimSuffix(ap, "/"), "/"), "/")
	cur := d.root
	for i, part := range parts {
		if !cur.dir {
			return false
		}
		next := cur.entries[part]
		if next == nil {
			return false
		}
		if i == len(parts)-1 {
			delete(cur.entries, part)
			return true
		}
		cur = next
	}
	return false
}

// ReplaceWithDir turns an existing file into an (empty) directory of the same name, directly (at-rest damage).
func (d *Disk) ReplaceWithDir(p string, uid int) bool {
	ap := d.abs(p)
	parts := strings.Split(strings.TrimPrefix(ap, "/"), "/")
	cur := d.root
	for i, part := range parts {
		if !cur.dir {
			return false
		}
		next := cur.entries[part]
		if next == nil {
			return false
		}
		if i == len(parts)-1 {
			if next.dir {
				return false
			}
			next.nlink--
			cur.entries[part] = &inode{ino: d.nextIno, dir: true, mode: 0o755, uid: uid, entries: map[string]*inode{}, nlink: 2}
			d.nextIno++
			return true
		}
		cur = next
	}
	return false
}

// Lookup returns content and mode of a path without events (nil,false if absent).
func (d *Disk) Lookup(p string) (data []byte, mode fs.FileMode, isDir bool, ok bool) {
	ap := d.abs(p)
	cur := d.root
	if ap != "/" {
		for _, part := range strings.Split(strings.TrimPrefix(ap, "/"), "/") {
			if !cur.dir {
				return nil, 0, false, false
			}
			cur = cur.entries[part]
			if cur == nil {
				return nil, 0, false, false
			}
		}
	}
	return cur.data, cur.mode, cur.dir, true
}

// SetData overwrites a file's bytes directly (at-rest damage).
func (d *Disk) SetData(p string, data []byte) bool {
	ap := d.abs(p)
	cur := d.root
	for _, part := range strings.Split(strings.TrimPrefix(ap, "/"), "/") {
		if !cur.dir {
			return false
		}
		cur = cur.entries[part]
		if cur == nil {
			return false
		}
	}
	if cur.dir {
		return false
	}
	cur.data = append([]byte{}, data...)
	return true
}

// SetMode changes permission bits directly.
func (d *Disk) SetMode(p string, mode fs.FileMode) bool {
	ap := d.abs(p)
	cur := d.root
	for _, part := range strings.Split(strings.TrimPrefix(ap, "/"), "/") {
		if !cur.dir {
			return false
		}
		cur = cur.entries[part]
		if cur == nil {
			return false
		}
	}
	cur.mode = mode.Perm()
	return true
}

// Tree lists every path with kind, mode and a content hash, sorted: the abstract state of the disk.
type TreeEntry struct {
	Path string
	Dir  bool
	Mode fs.FileMode
	Size int
	Sum  uint64
}

func (d *Disk) Tree() []TreeEntry {
	var out []TreeEntry
	var rec func(p string, n *inode)
	rec = func(p string, n *inode) {
		e := TreeEntry{Path: p, Dir: n.dir, Mode: n.mode, Size: len(n.data)}
		h := uint64(14695981039346656037)
		for _, b := range n.data {
			h ^= uint64(b)
			h *= 1099511628211
		}
		e.Sum = h
		out = append(out, e)
		if n.dir {
			names := make([]string, 0, len(n.entries))
			for k := range n.entries {
				names = append(names, k)
			}
			sort.Strings(names)
			for _, k := range names {
				cp := p + "/" + k
				if p == "/" {
					cp = "/" + k
				}
				rec(cp, n.entries[k])
			}
		}
	}
	rec("/", d.root)
	return out
}

// Clone returns a deep copy of the tree (plans and statistics are not copied).
func (d *Disk) Clone() *Disk {
	c := NewDisk(d.UID)
	c.Cwd, c.Umask, c.nextIno = d.Cwd, d.Umask, d.nextIno
	c.MtimeGranularity = d.MtimeGranularity
	seen := map[*inode]*inode{}
	var cp func(n *inode) *inode
	cp = func(n *inode) *inode {
		if x, ok := seen[n]; ok {
			return x
		}
		x := &inode{ino: n.ino, dir: n.dir, mode: n.mode, uid: n.uid, nlink: n.nlink, mtime: n.mtime}
		seen[n] = x
		x.data = append([]byte(nil), n.data...)
		if n.dir {
			x.entries = map[string]*inode{}
			for k, v := range n.entries {
				x.entries[k] = cp(v)
			}
		}
		return x
	}
	c.root = cp(d.root)
	return c
}

// ResetPlan clears faults, crash point, trace and statistics (restart).
func (d *Disk) ResetPlan() {
	d.Faults, d.Crash, d.Crashed = nil, nil, false
	d.stickyCall = ""
	d.WriteSplit, d.wsIdx, d.ReadChunk = nil, 0, 0
	d.Trace, d.Journal, d.NEvents = nil, nil, 0
	d.Killer = nil
}

var _ = time.Now
