// Package simos replaces package os in instrumented code. With no simulated
// disk mounted every call forwards to the real package os; with a Disk mounted
// every file-system call is decomposed into the system calls the real
// implementation issues and executed against the in-memory disk, where each
// system call is a fault slot and a crash slot.
package simos

import (
	"errors"
	"io"
	"io/fs"
	"os"
	"path/filepath"
	"strconv"
	"syscall"
	"time"

	verifsim "github.com/protobom/protobom/pkg/verifsim"
)

type (
	FileMode     = fs.FileMode
	FileInfo     = fs.FileInfo
	DirEntry     = fs.DirEntry
	PathError    = fs.PathError
	LinkError    = os.LinkError
	SyscallError = os.SyscallError
	Signal       = os.Signal
)

const (
	O_RDONLY = os.O_RDONLY
	O_WRONLY = os.O_WRONLY
	O_RDWR   = os.O_RDWR
	O_APPEND = os.O_APPEND
	O_CREATE = os.O_CREATE
	O_EXCL   = os.O_EXCL
	O_SYNC   = os.O_SYNC
	O_TRUNC  = os.O_TRUNC

	SEEK_SET = os.SEEK_SET
	SEEK_CUR = os.SEEK_CUR
	SEEK_END = os.SEEK_END

	PathSeparator     = os.PathSeparator
	PathListSeparator = os.PathListSeparator
	DevNull           = os.DevNull

	ModeDir        = fs.ModeDir
	ModeAppend     = fs.ModeAppend
	ModeExclusive  = fs.ModeExclusive
	ModeTemporary  = fs.ModeTemporary
	ModeSymlink    = fs.ModeSymlink
	ModeDevice     = fs.ModeDevice
	ModeNamedPipe  = fs.ModeNamedPipe
	ModeSocket     = fs.ModeSocket
	ModeSetuid     = fs.ModeSetuid
	ModeSetgid     = fs.ModeSetgid
	ModeCharDevice = fs.ModeCharDevice
	ModeSticky     = fs.ModeSticky
	ModeIrregular  = fs.ModeIrregular
	ModeType       = fs.ModeType
	ModePerm       = fs.ModePerm
)

var (
	ErrInvalid          = fs.ErrInvalid
	ErrPermission       = fs.ErrPermission
	ErrExist            = fs.ErrExist
	ErrNotExist         = fs.ErrNotExist
	ErrClosed           = fs.ErrClosed
	ErrNoDeadline       = os.ErrNoDeadline
	ErrDeadlineExceeded = os.ErrDeadlineExceeded
	ErrProcessDone      = os.ErrProcessDone

	Args = os.Args

	Stdin  = &File{real: os.Stdin}
	Stdout = &File{real: os.Stdout}
	Stderr = &File{real: os.Stderr}

	Interrupt = os.Interrupt
	Kill      = os.Kill
)

// ExitHook receives calls to Exit when set (the harness records "process-exit").
var ExitHook func(code int)

func Exit(code int) {
	if ExitHook != nil {
		ExitHook(code)
	}
	os.Exit(code)
}

func init() { verifsim.ExistsHook = Exists }

// Exists implements sigs.k8s.io/release-utils/util.Exists on the simulated disk.
func Exists(path string) bool {
	_, err := Stat(path)
	return !IsNotExist(err)
}

func IsExist(err error) bool                    { return os.IsExist(err) }
func IsNotExist(err error) bool                 { return os.IsNotExist(err) }
func IsPermission(err error) bool               { return os.IsPermission(err) }
func IsTimeout(err error) bool                  { return os.IsTimeout(err) }
func IsPathSeparator(c uint8) bool              { return os.IsPathSeparator(c) }
func NewSyscallError(s string, err error) error { return os.NewSyscallError(s, err) }

func Getenv(k string) string                        { return os.Getenv(k) }
func LookupEnv(k string) (string, bool)             { return os.LookupEnv(k) }
func Setenv(k, v string) error                      { return os.Setenv(k, v) }
func Unsetenv(k string) error                       { return os.Unsetenv(k) }
func Environ() []string                             { return os.Environ() }
func ExpandEnv(s string) string                     { return os.ExpandEnv(s) }
func Expand(s string, m func(string) string) string { return os.Expand(s, m) }
func Getpid() int                                   { return 4242 }
func Getppid() int                                  { return 1 }
func Getuid() int {
	if disk != nil {
		return disk.UID
	}
	return os.Getuid()
}
func Geteuid() int { return Getuid() }
func Getgid() int  { return Getuid() }
func Getegid() int { return Getuid() }
func Hostname() (string, error) {
	if disk != nil {
		return "simhost", nil
	}
	return os.Hostname()
}
func Executable() (string, error) { return os.Executable() }
func UserHomeDir() (string, error) {
	if disk != nil {
		return "/home/sim", nil
	}
	return os.UserHomeDir()
}
func UserCacheDir() (string, error) {
	if disk != nil {
		return "/home/sim/.cache", nil
	}
	return os.UserCacheDir()
}
func UserConfigDir() (string, error) {
	if disk != nil {
		return "/home/sim/.config", nil
	}
	return os.UserConfigDir()
}
func TempDir() string {
	if disk != nil {
		return "/tmp"
	}
	return os.TempDir()
}
func Getwd() (string, error) {
	if disk != nil {
		return disk.Cwd, nil
	}
	return os.Getwd()
}
func Chdir(dir string) error {
	if disk == nil {
		return os.Chdir(dir)
	}
	in, err := disk.stat(dir)
	if err != nil {
		return &PathError{Op: "chdir", Path: dir, Err: err}
	}
	if !in.dir {
		return &PathError{Op: "chdir", Path: dir, Err: syscall.ENOTDIR}
	}
	disk.Cwd = disk.abs(dir)
	return nil
}

// ---- file info ----

type fileInfo struct {
	name string
	in   *inode
	size int64
	mode fs.FileMode
	mt   int64
}

func (fi *fileInfo) Name() string { return fi.name }
func (fi *fileInfo) Size() int64  { return fi.size }
func (fi *fileInfo) Mode() fs.FileMode {
	return fi.mode
}
func (fi *fileInfo) ModTime() time.Time { return time.Unix(0, fi.mt) }
func (fi *fileInfo) IsDir() bool        { return fi.mode.IsDir() }
func (fi *fileInfo) Sys() any           { return nil }
func (fi *fileInfo) Type() fs.FileMode  { return fi.mode.Type() }
func (fi *fileInfo) Info() (fs.FileInfo, error) {
	return fi, nil
}

func infoOf(name string, in *inode) *fileInfo {
	m := in.mode
	if in.dir {
		m |= fs.ModeDir
	}
	return &fileInfo{name: filepath.Base(name), in: in, size: int64(len(in.data)), mode: m, mt: in.mtime}
}

func SameFile(a, b FileInfo) bool {
	x, ok1 := a.(*fileInfo)
	y, ok2 := b.(*fileInfo)
	if ok1 && ok2 {
		return x.in == y.in
	}
	if ok1 || ok2 {
		return false
	}
	return os.SameFile(a, b)
}

func Stat(name string) (FileInfo, error) {
	if disk == nil {
		return os.Stat(name)
	}
	in, err := disk.stat(name)
	if err != nil {
		return nil, &PathError{Op: "stat", Path: name, Err: err}
	}
	return infoOf(name, in), nil
}

func Lstat(name string) (FileInfo, error) {
	if disk == nil {
		return os.Lstat(name)
	}
	in, err := disk.stat(name)
	if err != nil {
		return nil, &PathError{Op: "lstat", Path: name, Err: err}
	}
	return infoOf(name, in), nil
}

func Mkdir(name string, perm FileMode) error {
	if disk == nil {
		return os.Mkdir(name, perm)
	}
	if err := disk.mkdir(name, perm); err != nil {
		return &PathError{Op: "mkdir", Path: name, Err: err}
	}
	return nil
}

// MkdirAll follows the algorithm of the standard library.
func MkdirAll(path string, perm FileMode) error {
	if disk == nil {
		return os.MkdirAll(path, perm)
	}
	dir, err := Stat(path)
	if err == nil {
		if dir.IsDir() {
			return nil
		}
		return &PathError{Op: "mkdir", Path: path, Err: syscall.ENOTDIR}
	}
	i := len(path)
	for i > 0 && path[i-1] == '/' {
		i--
	}
	j := i
	for j > 0 && path[j-1] != '/' {
		j--
	}
	if j > 1 {
		if err = MkdirAll(path[:j-1], perm); err != nil {
			return err
		}
	}
	err = Mkdir(path, perm)
	if err != nil {
		dir, err1 := Lstat(path)
		if err1 == nil && dir.IsDir() {
			return nil
		}
		return err
	}
	return nil
}

func Remove(name string) error {
	if disk == nil {
		return os.Remove(name)
	}
	err := disk.unlink(name, false)
	if err == nil {
		return nil
	}
	err1 := disk.unlink(name, true)
	if err1 == nil {
		return nil
	}
	if err1 != syscall.ENOTDIR {
		err = err1
	}
	return &PathError{Op: "remove", Path: name, Err: err}
}

func RemoveAll(path string) error {
	if disk == nil {
		return os.RemoveAll(path)
	}
	if path == "" {
		return nil
	}
	in, err := disk.stat(path)
	if err != nil {
		if errors.Is(err, syscall.ENOENT) {
			return nil
		}
		return &PathError{Op: "RemoveAll", Path: path, Err: err}
	}
	if in.dir {
		names, _, err := disk.readdir(path)
		if err != nil {
			return &PathError{Op: "RemoveAll", Path: path, Err: err}
		}
		for _, n := range names {
			if err := RemoveAll(path + "/" + n); err != nil {
				return err
			}
		}
	}
	return Remove(path)
}

func Rename(oldpath, newpath string) error {
	if disk == nil {
		return os.Rename(oldpath, newpath)
	}
	if err := disk.rename(oldpath, newpath); err != nil {
		return &LinkError{Op: "rename", Old: oldpath, New: newpath, Err: err}
	}
	return nil
}

func Link(oldname, newname string) error {
	if disk == nil {
		return os.Link(oldname, newname)
	}
	if err := disk.link(oldname, newname); err != nil {
		return &LinkError{Op: "link", Old: oldname, New: newname, Err: err}
	}
	return nil
}

func Symlink(oldname, newname string) error {
	if disk == nil {
		return os.Symlink(oldname, newname)
	}
	return &LinkError{Op: "symlink", Old: oldname, New: newname, Err: syscall.EPERM}
}

func Readlink(name string) (string, error) {
	if disk == nil {
		return os.Readlink(name)
	}
	return "", &PathError{Op: "readlink", Path: name, Err: syscall.EINVAL}
}

func Chmod(name string, mode FileMode) error {
	if disk == nil {
		return os.Chmod(name, mode)
	}
	if err := disk.chmod(name, mode); err != nil {
		return &PathError{Op: "chmod", Path: name, Err: err}
	}
	return nil
}

func Chown(name string, uid, gid int) error {
	if disk == nil {
		return os.Chown(name, uid, gid)
	}
	return nil
}

func Chtimes(name string, atime, mtime time.Time) error {
	if disk == nil {
		return os.Chtimes(name, atime, mtime)
	}
	return nil
}

func Truncate(name string, size int64) error {
	if disk == nil {
		return os.Truncate(name, size)
	}
	if err := disk.truncate(nil, name, size); err != nil {
		return &PathError{Op: "truncate", Path: name, Err: err}
	}
	return nil
}

func ReadDir(name string) ([]DirEntry, error) {
	if disk == nil {
		return os.ReadDir(name)
	}
	names, nodes, err := disk.readdir(name)
	if err != nil {
		return nil, &PathError{Op: "open", Path: name, Err: err}
	}
	out := make([]DirEntry, len(names))
	for i := range names {
		out[i] = infoOf(names[i], nodes[i])
	}
	return out, nil
}

func DirFS(dir string) fs.FS { return os.DirFS(dir) }

// ---- File ----

type File struct {
	real   *os.File
	in     *inode
	name   string
	flag   int
	off    int64
	closed bool
	dirPos int
}

func (f *File) Name() string {
	if f.real != nil {
		return f.real.Name()
	}
	return f.name
}

func (f *File) Fd() uintptr {
	if f.real != nil {
		return f.real.Fd()
	}
	return ^uintptr(0)
}

func Open(name string) (*File, error) { return OpenFile(name, O_RDONLY, 0) }

func Create(name string) (*File, error) {
	return OpenFile(name, O_RDWR|O_CREATE|O_TRUNC, 0o666)
}

func OpenFile(name string, flag int, perm FileMode) (*File, error) {
	if disk == nil {
		rf, err := os.OpenFile(name, flag, perm)
		if err != nil {
			return nil, err
		}
		return &File{real: rf}, nil
	}
	in, err := disk.open(name, flag, perm)
	if err != nil {
		return nil, &PathError{Op: "open", Path: name, Err: err}
	}
	return &File{in: in, name: name, flag: flag}, nil
}

func NewFile(fd uintptr, name string) *File {
	if rf := os.NewFile(fd, name); rf != nil {
		return &File{real: rf}
	}
	return nil
}

func tempName(pattern string) (prefix, suffix string) {
	for i := len(pattern) - 1; i >= 0; i-- {
		if pattern[i] == '*' {
			return pattern[:i], pattern[i+1:]
		}
	}
	return pattern, ""
}

func nextTemp() string {
	// names come from the run's PRNG so that disk traces replay exactly
	if verifsim.Active() {
		return strconv.FormatUint(verifsim.Rand()%1000000000, 10)
	}
	disk.TempNames = disk.TempNames*6364136223846793005 + 1442695040888963407
	return strconv.FormatUint((disk.TempNames>>33)%1000000000, 10)
}

func CreateTemp(dir, pattern string) (*File, error) {
	if disk == nil {
		rf, err := os.CreateTemp(dir, pattern)
		if err != nil {
			return nil, err
		}
		return &File{real: rf}, nil
	}
	if dir == "" {
		dir = TempDir()
	}
	prefix, suffix := tempName(pattern)
	for try := 0; ; try++ {
		name := filepath.Join(dir, prefix+nextTemp()+suffix)
		f, err := OpenFile(name, O_RDWR|O_CREATE|O_EXCL, 0o600)
		if IsExist(err) && try < 10000 {
			continue
		}
		if err != nil {
			return nil, &PathError{Op: "createtemp", Path: dir + "/" + pattern, Err: errors.Unwrap(err)}
		}
		return f, nil
	}
}

func MkdirTemp(dir, pattern string) (string, error) {
	if disk == nil {
		return os.MkdirTemp(dir, pattern)
	}
	if dir == "" {
		dir = TempDir()
	}
	prefix, suffix := tempName(pattern)
	for try := 0; ; try++ {
		name := filepath.Join(dir, prefix+nextTemp()+suffix)
		err := Mkdir(name, 0o700)
		if IsExist(err) && try < 10000 {
			continue
		}
		if err != nil {
			return "", err
		}
		return name, nil
	}
}

func (f *File) check(op string) error {
	if f == nil {
		return ErrInvalid
	}
	if f.closed {
		return &PathError{Op: op, Path: f.name, Err: ErrClosed}
	}
	return nil
}

func (f *File) Read(b []byte) (int, error) {
	if f.real != nil {
		return f.real.Read(b)
	}
	if err := f.check("read"); err != nil {
		return 0, err
	}
	if f.flag&3 == O_WRONLY {
		return 0, &PathError{Op: "read", Path: f.name, Err: syscall.EBADF}
	}
	if f.in.dir {
		return 0, &PathError{Op: "read", Path: f.name, Err: syscall.EISDIR}
	}
	if len(b) == 0 {
		return 0, nil
	}
	n, err := disk.read(f.in, f.name, f.off, b)
	f.off += int64(n)
	if err != nil {
		return n, &PathError{Op: "read", Path: f.name, Err: err}
	}
	if n == 0 {
		return 0, io.EOF
	}
	return n, nil
}

func (f *File) ReadAt(b []byte, off int64) (int, error) {
	if f.real != nil {
		return f.real.ReadAt(b, off)
	}
	if err := f.check("read"); err != nil {
		return 0, err
	}
	total := 0
	for total < len(b) {
		n, err := disk.read(f.in, f.name, off+int64(total), b[total:])
		total += n
		if err != nil {
			return total, &PathError{Op: "read", Path: f.name, Err: err}
		}
		if n == 0 {
			return total, io.EOF
		}
	}
	return total, nil
}

func (f *File) ReadFrom(r io.Reader) (int64, error) {
	if f.real != nil {
		return f.real.ReadFrom(r)
	}
	buf := make([]byte, 32*1024)
	var total int64
	for {
		n, err := r.Read(buf)
		if n > 0 {
			w, werr := f.Write(buf[:n])
			total += int64(w)
			if werr != nil {
				return total, werr
			}
		}
		if err == io.EOF {
			return total, nil
		}
		if err != nil {
			return total, err
		}
	}
}

func (f *File) WriteTo(w io.Writer) (int64, error) {
	if f.real != nil {
		return f.real.WriteTo(w)
	}
	buf := make([]byte, 32*1024)
	var total int64
	for {
		n, err := f.Read(buf)
		if n > 0 {
			k, werr := w.Write(buf[:n])
			total += int64(k)
			if werr != nil {
				return total, werr
			}
		}
		if err == io.EOF {
			return total, nil
		}
		if err != nil {
			return total, err
		}
	}
}

// Write loops over short writes like internal/poll.FD.Write.
func (f *File) Write(b []byte) (int, error) {
	if f.real != nil {
		return f.real.Write(b)
	}
	if err := f.check("write"); err != nil {
		return 0, err
	}
	if f.flag&3 == O_RDONLY {
		return 0, &PathError{Op: "write", Path: f.name, Err: syscall.EBADF}
	}
	total := 0
	for {
		n, err := disk.write(f.in, f.name, f.off, b[total:], f.flag&O_APPEND != 0)
		if f.flag&O_APPEND != 0 {
			f.off = int64(len(f.in.data))
		} else {
			f.off += int64(n)
		}
		total += n
		if err != nil {
			return total, &PathError{Op: "write", Path: f.name, Err: err}
		}
		if total >= len(b) {
			return total, nil
		}
		if n == 0 {
			return total, &PathError{Op: "write", Path: f.name, Err: io.ErrUnexpectedEOF}
		}
	}
}

func (f *File) WriteString(s string) (int, error) { return f.Write([]byte(s)) }

func (f *File) WriteAt(b []byte, off int64) (int, error) {
	if f.real != nil {
		return f.real.WriteAt(b, off)
	}
	if err := f.check("write"); err != nil {
		return 0, err
	}
	total := 0
	for total < len(b) {
		n, err := disk.write(f.in, f.name, off+int64(total), b[total:], false)
		total += n
		if err != nil {
			return total, &PathError{Op: "write", Path: f.name, Err: err}
		}
		if n == 0 {
			return total, &PathError{Op: "write", Path: f.name, Err: io.ErrUnexpectedEOF}
		}
	}
	return total, nil
}

func (f *File) Seek(offset int64, whence int) (int64, error) {
	if f.real != nil {
		return f.real.Seek(offset, whence)
	}
	if err := f.check("seek"); err != nil {
		return 0, err
	}
	var n int64
	switch whence {
	case io.SeekStart:
		n = offset
	case io.SeekCurrent:
		n = f.off + offset
	case io.SeekEnd:
		n = int64(len(f.in.data)) + offset
	default:
		return 0, &PathError{Op: "seek", Path: f.name, Err: syscall.EINVAL}
	}
	if n < 0 {
		return 0, &PathError{Op: "seek", Path: f.name, Err: syscall.EINVAL}
	}
	f.off = n
	return n, nil
}

func (f *File) Close() error {
	if f == nil {
		return ErrInvalid
	}
	if f.real != nil {
		return f.real.Close()
	}
	if f.closed {
		return &PathError{Op: "close", Path: f.name, Err: ErrClosed}
	}
	err := disk.simple("close", f.name, func() error { return nil })
	f.closed = true
	if err != nil {
		return &PathError{Op: "close", Path: f.name, Err: err}
	}
	return nil
}

func (f *File) Sync() error {
	if f.real != nil {
		return f.real.Sync()
	}
	if err := f.check("sync"); err != nil {
		return err
	}
	if err := disk.simple("fsync", f.name, func() error { return nil }); err != nil {
		return &PathError{Op: "sync", Path: f.name, Err: err}
	}
	return nil
}

func (f *File) Stat() (FileInfo, error) {
	if f.real != nil {
		return f.real.Stat()
	}
	if err := f.check("stat"); err != nil {
		return nil, err
	}
	if err := disk.simple("fstat", f.name, func() error { return nil }); err != nil {
		return nil, &PathError{Op: "stat", Path: f.name, Err: err}
	}
	return infoOf(f.name, f.in), nil
}

func (f *File) Chmod(mode FileMode) error {
	if f.real != nil {
		return f.real.Chmod(mode)
	}
	if err := f.check("chmod"); err != nil {
		return err
	}
	err := disk.simple("fchmod", f.name, func() error {
		if disk.UID != 0 && f.in.uid != disk.UID {
			return syscall.EPERM
		}
		f.in.mode = mode.Perm()
		return nil
	})
	if err != nil {
		return &PathError{Op: "chmod", Path: f.name, Err: err}
	}
	return nil
}

func (f *File) Chown(uid, gid int) error {
	if f.real != nil {
		return f.real.Chown(uid, gid)
	}
	return nil
}

func (f *File) Truncate(size int64) error {
	if f.real != nil {
		return f.real.Truncate(size)
	}
	if err := f.check("truncate"); err != nil {
		return err
	}
	if err := disk.truncate(f.in, f.name, size); err != nil {
		return &PathError{Op: "truncate", Path: f.name, Err: err}
	}
	return nil
}

func (f *File) ReadDir(n int) ([]DirEntry, error) {
	if f.real != nil {
		return f.real.ReadDir(n)
	}
	all, err := ReadDir(f.name)
	if err != nil {
		return nil, err
	}
	if f.dirPos > len(all) {
		f.dirPos = len(all)
	}
	rest := all[f.dirPos:]
	if n > 0 && len(rest) > n {
		rest = rest[:n]
	}
	f.dirPos += len(rest)
	if n > 0 && len(rest) == 0 {
		return nil, io.EOF
	}
	return rest, nil
}

func (f *File) Readdir(n int) ([]FileInfo, error) {
	if f.real != nil {
		return f.real.Readdir(n)
	}
	es, err := f.ReadDir(n)
	out := make([]FileInfo, len(es))
	for i, e := range es {
		out[i], _ = e.Info()
	}
	return out, err
}

func (f *File) Readdirnames(n int) ([]string, error) {
	if f.real != nil {
		return f.real.Readdirnames(n)
	}
	es, err := f.ReadDir(n)
	out := make([]string, len(es))
	for i, e := range es {
		out[i] = e.Name()
	}
	return out, err
}

func (f *File) SetDeadline(t time.Time) error      { return nil }
func (f *File) SetReadDeadline(t time.Time) error  { return nil }
func (f *File) SetWriteDeadline(t time.Time) error { return nil }

// ReadFile mirrors os.ReadFile: open, fstat, read until EOF, close.
func ReadFile(name string) ([]byte, error) {
	if disk == nil {
		return os.ReadFile(name)
	}
	f, err := Open(name)
	if err != nil {
		return nil, err
	}
	defer f.Close()
	size := 0
	if info, err := f.Stat(); err == nil {
		size = int(info.Size())
	}
	size++
	if size < 512 {
		size = 512
	}
	data := make([]byte, 0, size)
	for {
		n, err := f.Read(data[len(data):cap(data)])
		data = data[:len(data)+n]
		if err != nil {
			if err == io.EOF {
				err = nil
			}
			return data, err
		}
		if len(data) >= cap(data) {
			d := append(data[:cap(data)], 0)
			data = d[:len(data)]
		}
	}
}

// WriteFile mirrors os.WriteFile: open(O_WRONLY|O_CREATE|O_TRUNC), write, close.
func WriteFile(name string, data []byte, perm FileMode) error {
	if disk == nil {
		return os.WriteFile(name, data, perm)
	}
	f, err := OpenFile(name, O_WRONLY|O_CREATE|O_TRUNC, perm)
	if err != nil {
		return err
	}
	_, err = f.Write(data)
	if err1 := f.Close(); err1 != nil && err == nil {
		err = err1
	}
	return err
}

func CopyFS(dir string, fsys fs.FS) error {
	return errors.New("simos: CopyFS is outside the simulator")
}
