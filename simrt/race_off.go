//go:build !race

package verifsim

const RaceEnabled = false

func raceDisable()    {}
func raceEnable()     {}
func RaceErrors() int { return 0 }
