// Package simsync replaces package sync in instrumented code. The wrappers
// delegate to the real primitives, so the race detector sees the program's own
// happens-before edges, but they never block the OS thread while a simulated
// run is active: a task that cannot proceed parks in the scheduler instead.
package simsync

import (
	"fmt"
	"sort"
	"sync"
	"unsafe"

	verifsim "github.com/protobom/protobom/pkg/verifsim"
)

type Locker = sync.Locker

// Pool is a deterministic sync.Pool: a LIFO free list that never drops an
// object (the standard pool drops and migrates objects depending on the
// processor the goroutine runs on, and randomly under the race detector, which
// would make runs unrepeatable). Always retaining is behaviour the contract of
// sync.Pool allows, and it is the behaviour under which use-after-Put shows.
// Put happens-before the Get that returns the object, as in the standard pool.
type Pool struct {
	New  func() any
	mu   sync.Mutex
	free []any
}

func (p *Pool) Get() any {
	verifsim.Yield(verifsim.SiteMapOp)
	p.mu.Lock()
	var x any
	if n := len(p.free); n > 0 {
		x = p.free[n-1]
		p.free = p.free[:n-1]
	}
	p.mu.Unlock()
	if x == nil && p.New != nil {
		x = p.New()
	}
	return x
}

func (p *Pool) Put(x any) {
	if x == nil {
		return
	}
	verifsim.Yield(verifsim.SiteMapOp)
	p.mu.Lock()
	p.free = append(p.free, x)
	p.mu.Unlock()
}

type Mutex struct{ mu sync.Mutex }

//go:norace
func (m *Mutex) Lock() {
	if !verifsim.Active() {
		m.mu.Lock()
		return
	}
	verifsim.Yield(verifsim.SiteLock)
	for !m.mu.TryLock() {
		verifsim.Block(uintptr(unsafe.Pointer(m)))
	}
}

//go:norace
func (m *Mutex) TryLock() bool { verifsim.Yield(verifsim.SiteLock); return m.mu.TryLock() }

//go:norace
func (m *Mutex) Unlock() {
	m.mu.Unlock()
	verifsim.Unblock(uintptr(unsafe.Pointer(m)))
	verifsim.Yield(verifsim.SiteUnlock)
}

// RWMutex models sync.RWMutex including writer preference: while a writer waits
// in Lock, new readers block (also a reader that already holds a read lock,
// which is how a recursive RLock deadlocks in the standard library).
type RWMutex struct {
	mu       sync.RWMutex
	pendingW int
}

//go:norace
func (m *RWMutex) Lock() {
	if !verifsim.Active() {
		m.mu.Lock()
		return
	}
	verifsim.Yield(verifsim.SiteLock)
	m.pendingW++
	for !m.mu.TryLock() {
		verifsim.ProbeHit(verifsim.ProbeLockBlocked)
		verifsim.Block(uintptr(unsafe.Pointer(m)))
	}
	m.pendingW--
}

//go:norace
func (m *RWMutex) Unlock() {
	m.mu.Unlock()
	verifsim.Unblock(uintptr(unsafe.Pointer(m)))
	verifsim.Yield(verifsim.SiteUnlock)
}

//go:norace
func (m *RWMutex) RLock() {
	if !verifsim.Active() {
		m.mu.RLock()
		return
	}
	verifsim.Yield(verifsim.SiteLock)
	for m.pendingW > 0 || !m.mu.TryRLock() {
		verifsim.ProbeHit(verifsim.ProbeLockBlocked)
		verifsim.Block(uintptr(unsafe.Pointer(m)))
	}
}

//go:norace
func (m *RWMutex) RUnlock() {
	m.mu.RUnlock()
	verifsim.Unblock(uintptr(unsafe.Pointer(m)))
	verifsim.Yield(verifsim.SiteUnlock)
}

//go:norace
func (m *RWMutex) TryLock() bool { verifsim.Yield(verifsim.SiteLock); return m.mu.TryLock() }

//go:norace
func (m *RWMutex) TryRLock() bool { verifsim.Yield(verifsim.SiteLock); return m.mu.TryRLock() }

func (m *RWMutex) RLocker() Locker { return (*rlocker)(m) }

type rlocker RWMutex

func (r *rlocker) Lock()   { (*RWMutex)(r).RLock() }
func (r *rlocker) Unlock() { (*RWMutex)(r).RUnlock() }

// Once: the first caller runs f through the real sync.Once (so completion
// happens-before every later Do, as in the standard library); callers that
// arrive while f is running park in the scheduler.
type Once struct {
	real  sync.Once
	state int // 0 idle, 1 running, 2 done
	owner int
}

//go:norace
func (o *Once) Do(f func()) {
	if !verifsim.Active() {
		if o.state == 2 {
			o.real.Do(func() {})
			return
		}
		o.real.Do(func() {
			defer o.setDone()
			f()
		})
		return
	}
	verifsim.Yield(verifsim.SiteOnce)
	for {
		switch o.state {
		case 2:
			o.real.Do(func() {})
			return
		case 0:
			o.state = 1
			o.owner = verifsim.CurrentTask()
			verifsim.ProbeHit(verifsim.ProbeOnceRun)
			o.real.Do(func() {
				defer o.setDone()
				f()
			})
			return
		default:
			verifsim.ProbeHit(verifsim.ProbeOnceWait)
			verifsim.Block(uintptr(unsafe.Pointer(o)))
		}
	}
}

//go:norace
func (o *Once) setDone() {
	o.state = 2
	verifsim.Unblock(uintptr(unsafe.Pointer(o)))
}

func OnceFunc(f func()) func() {
	var o Once
	return func() { o.Do(f) }
}

func OnceValue[T any](f func() T) func() T {
	var o Once
	var v T
	return func() T { o.Do(func() { v = f() }); return v }
}

func OnceValues[T1, T2 any](f func() (T1, T2)) func() (T1, T2) {
	var o Once
	var v1 T1
	var v2 T2
	return func() (T1, T2) { o.Do(func() { v1, v2 = f() }); return v1, v2 }
}

// WaitGroup: Wait parks in the scheduler until the counter is zero.
type WaitGroup struct {
	real sync.WaitGroup
	n    int
}

//go:norace
func (w *WaitGroup) Add(d int) {
	w.n += d
	w.real.Add(d)
	if w.n == 0 {
		verifsim.Unblock(uintptr(unsafe.Pointer(w)))
	}
}

func (w *WaitGroup) Done() { w.Add(-1) }

//go:norace
func (w *WaitGroup) Wait() {
	if !verifsim.Active() {
		w.real.Wait()
		return
	}
	verifsim.Yield(verifsim.SiteWG)
	for w.n > 0 {
		verifsim.Block(uintptr(unsafe.Pointer(w)))
	}
	w.real.Wait()
}

// Map delegates to sync.Map with a preemption point before every operation.
// Range iterates over a snapshot in canonical key order (sync.Map.Range is
// map-ordered in the standard library, which would break replay).
type Map struct{ m sync.Map }

func (m *Map) Load(k any) (any, bool) { verifsim.Yield(verifsim.SiteMapOp); return m.m.Load(k) }
func (m *Map) Store(k, v any)         { verifsim.Yield(verifsim.SiteMapOp); m.m.Store(k, v) }
func (m *Map) Delete(k any)           { verifsim.Yield(verifsim.SiteMapOp); m.m.Delete(k) }
func (m *Map) Clear()                 { verifsim.Yield(verifsim.SiteMapOp); m.m.Clear() }
func (m *Map) LoadOrStore(k, v any) (any, bool) {
	verifsim.Yield(verifsim.SiteMapOp)
	return m.m.LoadOrStore(k, v)
}
func (m *Map) LoadAndDelete(k any) (any, bool) {
	verifsim.Yield(verifsim.SiteMapOp)
	return m.m.LoadAndDelete(k)
}
func (m *Map) Swap(k, v any) (any, bool) { verifsim.Yield(verifsim.SiteMapOp); return m.m.Swap(k, v) }
func (m *Map) CompareAndSwap(k, o, n any) bool {
	verifsim.Yield(verifsim.SiteMapOp)
	return m.m.CompareAndSwap(k, o, n)
}
func (m *Map) CompareAndDelete(k, o any) bool {
	verifsim.Yield(verifsim.SiteMapOp)
	return m.m.CompareAndDelete(k, o)
}
func (m *Map) Range(f func(k, v any) bool) {
	verifsim.Yield(verifsim.SiteMapOp)
	type kv struct {
		k, v any
		s    string
	}
	var all []kv
	m.m.Range(func(k, v any) bool {
		all = append(all, kv{k, v, fmt.Sprintf("%T:%v", k, k)})
		return true
	})
	sort.Slice(all, func(i, j int) bool { return all[i].s < all[j].s })
	for _, e := range all {
		if !f(e.k, e.v) {
			return
		}
	}
}
