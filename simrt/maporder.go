package verifsim

import (
	"fmt"
	"os"
	"reflect"
	"sort"
)

// Before the first run of a process (package initialisation, first-use set-up done by the harness) the
// order of map iteration is a decision of the simulator as well: VERIF_INIT_SEED, chosen by the driver per
// worker process (0 or unset: sorted). Go gives a different order in every process; so does this.
var (
	initSeedRead bool
	initSeed     uint64
	initCtr      uint64
	everActive   bool
)

//go:norace
func mapSeed() (uint64, bool) {
	if !active {
		if everActive {
			return 0, false
		}
		if !initSeedRead {
			initSeedRead = true
			fmt.Sscan(os.Getenv("VERIF_INIT_SEED"), &initSeed)
		}
		if initSeed == 0 {
			return 0, false
		}
		initCtr++
		var r rng
		r.seed(initSeed + initCtr*0x9e3779b97f4a7c15)
		return r.next(), true
	}
	if !mapRand {
		return 0, false
	}
	return rngMap.next(), true
}

// MapKeys returns the keys of m in canonical (sorted) order, permuted by the
// run's PRNG when a simulation with random map order is active. Rewritten
// `range` statements over maps iterate over it, so the iteration order of
// protobom's own maps is a decision of the simulator.
func MapKeys[M ~map[K]V, K comparable, V any](m M) []K {
	keys := make([]K, 0, len(m))
	for k := range m {
		keys = append(keys, k)
	}
	sortKeys(keys)
	if s, ok := mapSeed(); ok && len(keys) > 1 {
		var r rng
		r.seed(s)
		for i := len(keys) - 1; i > 0; i-- {
			j := int(r.next() % uint64(i+1))
			keys[i], keys[j] = keys[j], keys[i]
		}
	}
	return keys
}

func sortKeys[K comparable](keys []K) {
	if len(keys) < 2 {
		return
	}
	switch ks := any(keys).(type) {
	case []string:
		sort.Strings(ks)
		return
	case []int:
		sort.Ints(ks)
		return
	}
	kind := reflect.TypeOf(keys[0]).Kind()
	switch kind {
	case reflect.String:
		sort.Slice(keys, func(i, j int) bool {
			return reflect.ValueOf(keys[i]).String() < reflect.ValueOf(keys[j]).String()
		})
	case reflect.Int, reflect.Int8, reflect.Int16, reflect.Int32, reflect.Int64:
		sort.Slice(keys, func(i, j int) bool {
			return reflect.ValueOf(keys[i]).Int() < reflect.ValueOf(keys[j]).Int()
		})
	case reflect.Uint, reflect.Uint8, reflect.Uint16, reflect.Uint32, reflect.Uint64, reflect.Uintptr:
		sort.Slice(keys, func(i, j int) bool {
			return reflect.ValueOf(keys[i]).Uint() < reflect.ValueOf(keys[j]).Uint()
		})
	default:
		sort.Slice(keys, func(i, j int) bool {
			return fmt.Sprintf("%#v", keys[i]) < fmt.Sprintf("%#v", keys[j])
		})
	}
}
