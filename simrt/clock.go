package verifsim

import (
	"os"
	"time"
)

var (
	clockOn  bool
	clockNow int64 // unix nanoseconds
	clockN   uint64
	clockTrv int64 // simulated time travelled: sum of |jumps| plus the per-read advance
)

// ClockTravelled returns the simulated time covered so far in this process (ns).
//
//go:norace
func ClockTravelled() int64 { return clockTrv }

// ClockSet switches the simulated clock on and sets it.
//
//go:norace
func ClockSet(unixNano int64) { clockOn = true; clockNow = unixNano }

// ClockJump moves the simulated clock (forwards or backwards).
//
//go:norace
func ClockJump(d time.Duration) {
	clockNow += int64(d)
	if d < 0 {
		d = -d
	}
	clockTrv += int64(d)
}

// ClockReads counts how often the program read the clock.
//
//go:norace
func ClockReads() uint64 { return clockN }

//go:norace
func clockRead() (int64, bool) {
	if !clockOn {
		return 0, false
	}
	clockN++
	clockNow += 1000 // every read advances simulated time by a microsecond
	clockTrv += 1000
	return clockNow, true
}

// Now replaces time.Now in instrumented code.
func Now() time.Time {
	if ns, ok := clockRead(); ok {
		return time.Unix(0, ns)
	}
	return time.Now()
}

func Since(t time.Time) time.Duration { return Now().Sub(t) }
func Until(t time.Time) time.Duration { return t.Sub(Now()) }

// Sleep advances simulated time; it never blocks.
func Sleep(d time.Duration) {
	if clockOn {
		ClockJump(d)
		Yield(SiteSpecial)
		return
	}
	time.Sleep(d)
}

// ExistsHook is installed by simos; UtilExists replaces sigs.k8s.io/release-utils/util.Exists.
var ExistsHook func(string) bool

func UtilExists(path string) bool {
	if ExistsHook != nil {
		return ExistsHook(path)
	}
	_, err := os.Stat(path)
	return !os.IsNotExist(err)
}

// SimProcs is the number of processors the simulated machine reports.
var SimProcs = 4

// RuntimeGOMAXPROCS, RuntimeNumCPU and RuntimeGosched replace their runtime counterparts in
// instrumented code: how many goroutines a library starts must not depend on the machine the
// simulation runs on (it is a parameter of the run).
func RuntimeGOMAXPROCS(n int) int { return SimProcs }
func RuntimeNumCPU() int          { return SimProcs }
func RuntimeGosched()             { Yield(SiteSpecial) }
