// Package verifsim is the runtime of the deterministic simulator. It exists in
// the protobom module only through a build overlay (see simgen); nothing of it
// is committed to the repository.
//
// Rules for this file (see DESIGN.md 2.2): every function that touches
// scheduler state is //go:norace and self-contained: no maps, no calls into
// race-instrumented packages on the hot path, own PRNG. Hand-offs between
// tasks run inside runtime.RaceDisable/RaceEnable, so the race detector sees
// only the synchronisation the program under test performs itself.
package verifsim

import (
	"sync"
)

// Special site numbers (>= SiteSpecial) name scheduler-internal preemption points.
const (
	SiteSpecial  = 1 << 30
	SiteLock     = SiteSpecial + 1
	SiteUnlock   = SiteSpecial + 2
	SiteOnce     = SiteSpecial + 3
	SiteMapOp    = SiteSpecial + 4
	SiteOpBegin  = SiteSpecial + 5
	SiteOpEnd    = SiteSpecial + 6
	SiteSyscall  = SiteSpecial + 7
	SiteTaskEnd  = SiteSpecial + 8
	SiteWG       = SiteSpecial + 9
	SiteGo       = SiteSpecial + 10
	SiteBlocked  = SiteSpecial + 11
	SiteStreamIO = SiteSpecial + 12
)

// Switch is one context switch: at global step Step the token went to Task.
// Replay follows (From, Local): when task From reaches its Local-th own step,
// the token goes to Task. Task-local positions survive the removal of other
// tasks' operations, which is what makes schedules shrinkable.
type Switch struct {
	Step  uint64 `json:"s"`
	From  int    `json:"f"`
	Local uint64 `json:"l"`
	Task  int    `json:"t"`
}

// Config of one simulated run.
type Config struct {
	Seed     uint64   `json:"seed"`
	Policy   string   `json:"policy"` // random | pct | opbound | explicit | serial
	P        float64  `json:"p,omitempty"`
	PCTDepth int      `json:"pct_d,omitempty"`
	EstSteps uint64   `json:"est_steps,omitempty"`
	Schedule []Switch `json:"schedule,omitempty"`
	MaxSteps uint64   `json:"max_steps,omitempty"`
	MapOrder string   `json:"map_order,omitempty"` // sorted | random
}

// Outcome of the scheduler for one run.
type Result struct {
	Steps     uint64   `json:"steps"`
	Switches  int      `json:"switches"`
	Schedule  []Switch `json:"schedule"`
	Truncated bool     `json:"schedule_truncated,omitempty"`
	Hang      bool     `json:"hang,omitempty"`     // step cap exceeded
	Deadlock  bool     `json:"deadlock,omitempty"` // every live task blocked
	Killed    bool     `json:"killed,omitempty"`   // simulated process death
	HangTask  int      `json:"hang_task,omitempty"`
	HangSite  uint32   `json:"hang_site,omitempty"`
	LogHash   uint64   `json:"log_hash"`
	Tasks     int      `json:"tasks"`
	InOpSw    int      `json:"in_op_switches"` // switches that happened while the preempted task was inside an operation
	IlvHash   uint64   `json:"ilv_hash"`       // hash of (task, site) at in-operation switches
	BlockedEv int      `json:"blocked_events"`
}

type Task struct {
	ID        int
	wake      chan struct{}
	done      bool
	started   bool
	blockedOn uintptr
	inOp      bool
	prio      int
	lastSite  uint32
	local     uint64
	body      func(*Task)
}

const maxTasks = 64
const maxSched = 1 << 16

var (
	active   bool
	cur      *Task
	tasks    [maxTasks]*Task
	ntasks   int
	steps    uint64
	maxSteps uint64
	policy   int
	switchP  uint64 // probability scaled to 2^32
	rngSched rng
	rngMap   rng
	rngMisc  rng
	expl     []Switch
	explIdx  int
	rec      [maxSched]Switch
	nrec     int
	recTrunc bool
	inOpSw   int
	ilvHash  uint64
	logHash  uint64
	blockedN int
	mainWake chan int
	wg       *sync.WaitGroup // per run: abandoned tasks of earlier runs never call Done
	pctPts   [8]uint64
	npct     int
	mapRand  bool
	hangTask int
	hangSite uint32
	seqCtr   uint64
)

const (
	polRandom = iota
	polPCT
	polOpBound
	polExplicit
	polSerial
)

const (
	wakeDone = iota
	wakeHang
	wakeDeadlock
	wakeKilled
)

var parked int

// ParkedGoroutines counts task goroutines that were abandoned (hang, deadlock,
// simulated process death). The race detector supports 8128 live goroutines, so
// a worker process retires before that.
//
//go:norace
func ParkedGoroutines() int { return parked }

//go:norace
func countLive() int {
	n := 0
	for i := 0; i < ntasks; i++ {
		if !tasks[i].done {
			n++
		}
	}
	return n
}

// Kill is simulated process death: the calling task and every other task stop
// for ever at their current instruction; no deferred function runs.
//
//go:norace
func Kill() {
	if !active {
		panic("verifsim: Kill outside a simulated run")
	}
	active = false
	parkForever(wakeKilled)
}

// ---- PRNG (splitmix64 / xoshiro256**), self-contained ----

type rng struct{ s [4]uint64 }

//go:norace
func splitmix(x *uint64) uint64 {
	*x += 0x9e3779b97f4a7c15
	z := *x
	z = (z ^ (z >> 30)) * 0xbf58476d1ce4e5b9
	z = (z ^ (z >> 27)) * 0x94d049bb133111eb
	return z ^ (z >> 31)
}

//go:norace
func (r *rng) seed(s uint64) {
	for i := range r.s {
		r.s[i] = splitmix(&s)
	}
}

//go:norace
func rotl(x uint64, k uint) uint64 { return (x << k) | (x >> (64 - k)) }

//go:norace
func (r *rng) next() uint64 {
	s := &r.s
	res := rotl(s[1]*5, 7) * 9
	t := s[1] << 17
	s[2] ^= s[0]
	s[3] ^= s[1]
	s[1] ^= s[2]
	s[0] ^= s[3]
	s[2] ^= t
	s[3] = rotl(s[3], 45)
	return res
}

//go:norace
func (r *rng) intn(n int) int {
	if n <= 1 {
		return 0
	}
	return int(r.next() % uint64(n))
}

//go:norace
func fnv(h uint64, v uint64) uint64 {
	for i := 0; i < 8; i++ {
		h ^= v & 0xff
		h *= 1099511628211
		v >>= 8
	}
	return h
}

// Active reports whether a simulated run is in progress.
//
//go:norace
func Active() bool { return active }

// Steps returns the global step counter (yield count).
//
//go:norace
func Steps() uint64 { return steps }

// SetStepCap lets the running task bound the steps of its next operation: the run is
// abandoned as a hang when more than n further steps are taken.
//
//go:norace
func SetStepCap(n uint64) {
	if active {
		maxSteps = steps + n
	}
}

// Seq returns the next global event sequence number (used to stamp invoke/return).
//
//go:norace
func Seq() uint64 { seqCtr++; return seqCtr }

// CurrentTask returns the id of the running task or -1.
//
//go:norace
func CurrentTask() int {
	if !active || cur == nil {
		return -1
	}
	return cur.ID
}

// Log mixes a value into the event-log hash (determinism self-test).
//
//go:norace
func Log(kind uint64, v uint64) {
	logHash = fnv(fnv(logHash, kind), v)
}

// Rand draws from the miscellaneous stream of the run (faults, chunking ...).
//
//go:norace
func Rand() uint64 { return rngMisc.next() }

//go:norace
func runnable(t *Task) bool { return t != nil && !t.done && t.blockedOn == 0 }

//go:norace
func pickOther(t *Task, r *rng) *Task {
	n := 0
	for i := 0; i < ntasks; i++ {
		if tasks[i] != t && runnable(tasks[i]) {
			n++
		}
	}
	if n == 0 {
		return nil
	}
	k := r.intn(n)
	for i := 0; i < ntasks; i++ {
		if tasks[i] != t && runnable(tasks[i]) {
			if k == 0 {
				return tasks[i]
			}
			k--
		}
	}
	return nil
}

//go:norace
func pickPrio(exclude *Task) *Task {
	var best *Task
	for i := 0; i < ntasks; i++ {
		x := tasks[i]
		if x == exclude || !runnable(x) {
			continue
		}
		if best == nil || x.prio > best.prio {
			best = x
		}
	}
	return best
}

//go:norace
func pickLowest(exclude *Task) *Task {
	for i := 0; i < ntasks; i++ {
		if tasks[i] != exclude && runnable(tasks[i]) {
			return tasks[i]
		}
	}
	return nil
}

// explicitNext returns the task the explicit schedule names for the current
// position of task t (nil: keep running).
//
//go:norace
func explicitNext(t *Task) *Task {
	for explIdx < len(expl) {
		e := expl[explIdx]
		if e.From != t.ID {
			explIdx++ // entry of a task that no longer reaches it (shrunk scenario)
			continue
		}
		if t.local < e.Local && !t.done {
			return nil
		}
		explIdx++
		if e.Task >= 0 && e.Task < ntasks && runnable(tasks[e.Task]) && tasks[e.Task] != t {
			return tasks[e.Task]
		}
		if t.local == e.Local {
			return nil
		}
	}
	return nil
}

// decide returns the task that should run after the current step; t is the running task.
// atOp is true at operation boundaries.
//
//go:norace
func decide(t *Task, atOp bool) *Task {
	switch policy {
	case polExplicit:
		if n := explicitNext(t); n != nil {
			return n
		}
		return t
	case polRandom:
		if rngSched.next()&0xffffffff < switchP {
			if o := pickOther(t, &rngSched); o != nil {
				return o
			}
		}
		return t
	case polOpBound:
		if atOp && rngSched.next()&1 == 0 {
			if o := pickOther(t, &rngSched); o != nil {
				return o
			}
		}
		return t
	case polPCT:
		for i := 0; i < npct; i++ {
			if pctPts[i] == steps {
				t.prio = -int(steps) // lowest so far
			}
		}
		if b := pickPrio(nil); b != nil {
			return b
		}
		return t
	}
	return t
}

//go:norace
func record(next *Task, from *Task, site uint32) {
	if nrec < maxSched {
		f, l := -1, uint64(0)
		if from != nil {
			f, l = from.ID, from.local
		}
		rec[nrec] = Switch{steps, f, l, next.ID}
		nrec++
	} else {
		recTrunc = true
	}
	logHash = fnv(fnv(fnv(logHash, steps), uint64(next.ID)), uint64(site))
	if from != nil && from.inOp && !from.done {
		inOpSw++
		ilvHash = fnv(fnv(ilvHash, uint64(from.ID)), uint64(site))
	}
}

// handoff gives the token to next and parks the calling task t until it is resumed.
//
//go:norace
func handoff(t, next *Task, site uint32) {
	record(next, t, site)
	cur = next
	raceDisable()
	next.wake <- struct{}{}
	<-t.wake
	raceEnable()
}

//go:norace
func parkForever(code int) {
	parked += countLive()
	raceDisable()
	mainWake <- code
	select {}
}

// Yield is a preemption point. Called from instrumented code.
//
//go:norace
func Yield(site uint32) {
	if !active {
		return
	}
	t := cur
	if t == nil {
		return
	}
	steps++
	t.local++
	t.lastSite = site
	if steps > maxSteps {
		hangTask, hangSite = t.ID, site
		active = false
		parkForever(wakeHang)
	}
	next := decide(t, site == SiteOpBegin)
	if next != t {
		handoff(t, next, site)
	}
}

// Block parks the running task until Unblock(obj) is called by another task.
//
//go:norace
func Block(obj uintptr) {
	t := cur
	steps++
	t.local++
	blockedN++
	t.blockedOn = obj
	logHash = fnv(fnv(logHash, 0xb10c), uint64(t.ID))
	var next *Task
	switch policy {
	case polPCT:
		next = pickPrio(t)
	case polRandom, polOpBound:
		next = pickOther(t, &rngSched)
	case polExplicit:
		next = explicitNext(t)
		if next == t || next == nil {
			next = pickLowest(t)
		}
	default:
		next = pickLowest(t)
	}
	if next == nil {
		hangTask, hangSite = t.ID, SiteBlocked
		active = false
		parkForever(wakeDeadlock)
	}
	handoff(t, next, SiteBlocked)
}

// Unblock makes every task blocked on obj runnable again.
//
//go:norace
func Unblock(obj uintptr) {
	if !active {
		return
	}
	for i := 0; i < ntasks; i++ {
		if tasks[i].blockedOn == obj {
			tasks[i].blockedOn = 0
		}
	}
}

// OpBegin / OpEnd bracket one operation of the workload.
//
//go:norace
func OpBegin() {
	if !active || cur == nil {
		return
	}
	Yield(SiteOpBegin)
	cur.inOp = true
}

//go:norace
func OpEnd() {
	if !active || cur == nil {
		return
	}
	cur.inOp = false
	Yield(SiteOpEnd)
}

//go:norace
func finish(t *Task) {
	t.done = true
	t.inOp = false
	steps++
	t.local++
	var next *Task
	switch policy {
	case polPCT:
		next = pickPrio(t)
	case polRandom, polOpBound:
		next = pickOther(t, &rngSched)
	case polExplicit:
		next = explicitNext(t)
		if next == t || next == nil {
			next = pickLowest(t)
		}
	default:
		next = pickLowest(t)
	}
	if next != nil {
		record(next, t, SiteTaskEnd)
		cur = next
		raceDisable()
		next.wake <- struct{}{}
		raceEnable()
		return
	}
	// nobody runnable: all done, or deadlock
	for i := 0; i < ntasks; i++ {
		if !tasks[i].done {
			hangTask, hangSite = tasks[i].ID, SiteBlocked
			active = false
			parked += countLive()
			raceDisable()
			mainWake <- wakeDeadlock
			raceEnable()
			return
		}
	}
	active = false
	cur = nil
	raceDisable()
	mainWake <- wakeDone
	raceEnable()
}

//go:norace
func newTask(body func(*Task)) *Task {
	if ntasks >= maxTasks {
		panic("verifsim: too many tasks")
	}
	t := &Task{ID: ntasks, wake: make(chan struct{}, 1), body: body}
	t.prio = int(rngSched.next()>>40) + 1
	tasks[ntasks] = t
	ntasks++
	return t
}

func taskMain(t *Task) {
	raceDisable()
	<-t.wake
	raceEnable()
	myWG := wg
	defer func() {
		// a panic escaping a task body is a harness error; bodies recover their own operations
		myWG.Done()
		finish(t)
	}()
	t.body(t)
}

// Go starts f as a new scheduler-owned task (rewritten `go` statements).
//
//go:norace
func Go(f func()) {
	if !active {
		go f()
		return
	}
	t := newTask(func(*Task) { f() })
	wg.Add(1)
	go taskMain(t)
	Yield(SiteGo)
}

// Go1..Go4 replace `go f(a, ...)`: function value and arguments are evaluated by the caller.
func Go1[A any](f func(A), a A)                       { Go(func() { f(a) }) }
func Go2[A, B any](f func(A, B), a A, b B)            { Go(func() { f(a, b) }) }
func Go3[A, B, C any](f func(A, B, C), a A, b B, c C) { Go(func() { f(a, b, c) }) }
func Go4[A, B, C, D any](f func(A, B, C, D), a A, b B, c C, d D) {
	Go(func() { f(a, b, c, d) })
}

// Run executes the bodies as tasks under the configured schedule and returns
// when all have finished, or when the run hung or deadlocked.
func Run(cfg Config, bodies []func(*Task)) Result {
	setup(cfg)
	for _, b := range bodies {
		t := newTask(b)
		wg.Add(1)
		go taskMain(t)
	}
	code := start()
	if code == wakeDone {
		wg.Wait()
	}
	return collect(code)
}

//go:norace
func setup(cfg Config) {
	s := cfg.Seed
	rngSched.seed(splitmix(&s))
	rngMap.seed(splitmix(&s))
	rngMisc.seed(splitmix(&s))
	ntasks = 0
	steps = 0
	nrec = 0
	recTrunc = false
	inOpSw = 0
	blockedN = 0
	ilvHash = 14695981039346656037
	logHash = fnv(14695981039346656037, cfg.Seed)
	maxSteps = cfg.MaxSteps
	if maxSteps == 0 {
		maxSteps = 2000000
	}
	mapRand = cfg.MapOrder == "random"
	expl = cfg.Schedule
	explIdx = 0
	npct = 0
	switch cfg.Policy {
	case "pct":
		policy = polPCT
		est := cfg.EstSteps
		if est == 0 {
			est = 1000
		}
		d := cfg.PCTDepth
		if d > len(pctPts) {
			d = len(pctPts)
		}
		for i := 0; i < d; i++ {
			pctPts[i] = 1 + rngSched.next()%est
		}
		npct = d
	case "opbound":
		policy = polOpBound
	case "explicit":
		policy = polExplicit
	case "serial":
		policy = polSerial
	default:
		policy = polRandom
		p := cfg.P
		if p <= 0 {
			p = 0.1
		}
		switchP = uint64(p * 4294967296.0)
	}
	mainWake = make(chan int, 1)
	wg = new(sync.WaitGroup)
	cur = nil
}

//go:norace
func start() int {
	if ntasks == 0 {
		return wakeDone
	}
	var first *Task
	switch policy {
	case polPCT:
		first = pickPrio(nil)
	case polRandom, polOpBound:
		first = tasks[rngSched.intn(ntasks)]
	case polExplicit:
		first = tasks[0]
		if len(expl) > 0 && expl[0].From == -1 {
			if expl[0].Task >= 0 && expl[0].Task < ntasks {
				first = tasks[expl[0].Task]
			}
			explIdx = 1
		}
	default:
		first = tasks[0]
	}
	record(first, nil, SiteGo)
	cur = first
	active = true
	everActive = true
	raceDisable()
	first.wake <- struct{}{}
	code := <-mainWake
	raceEnable()
	active = false
	return code
}

//go:norace
func collect(code int) Result {
	r := Result{Steps: steps, Switches: nrec, Truncated: recTrunc, LogHash: logHash, Tasks: ntasks,
		InOpSw: inOpSw, IlvHash: ilvHash, BlockedEv: blockedN}
	r.Schedule = make([]Switch, nrec)
	for i := 0; i < nrec; i++ {
		r.Schedule[i] = rec[i]
	}
	switch code {
	case wakeHang:
		r.Hang, r.HangTask, r.HangSite = true, hangTask, hangSite
	case wakeDeadlock:
		r.Deadlock, r.HangTask, r.HangSite = true, hangTask, hangSite
	case wakeKilled:
		r.Killed = true
	}
	return r
}
