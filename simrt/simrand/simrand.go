// Package simrand replaces math/rand in instrumented code: the package-level
// generator (randomly seeded by the standard library) draws from the run's
// PRNG, so a library that picks random names or jitter stays repeatable.
// Explicitly seeded generators (rand.New(rand.NewSource(n))) are the real ones.
package simrand

import (
	"math/rand"

	verifsim "github.com/protobom/protobom/pkg/verifsim"
)

type (
	Rand     = rand.Rand
	Source   = rand.Source
	Source64 = rand.Source64
	Zipf     = rand.Zipf
)

func New(src Source) *Rand                             { return rand.New(src) }
func NewSource(seed int64) Source                      { return rand.NewSource(seed) }
func NewZipf(r *Rand, s, v float64, imax uint64) *Zipf { return rand.NewZipf(r, s, v, imax) }

func u64() uint64 { return verifsim.Rand() }

func Seed(int64)           {}
func Int63() int64         { return int64(u64() >> 1) }
func Uint32() uint32       { return uint32(u64() >> 32) }
func Uint64() uint64       { return u64() }
func Int31() int32         { return int32(u64() >> 33) }
func Int() int             { return int(uint(u64()) >> 1) }
func Float64() float64     { return float64(u64()>>11) / (1 << 53) }
func Float32() float32     { return float32(u64()>>40) / (1 << 24) }
func NormFloat64() float64 { return rand.New(rand.NewSource(Int63())).NormFloat64() }
func ExpFloat64() float64  { return rand.New(rand.NewSource(Int63())).ExpFloat64() }

func Int63n(n int64) int64 {
	if n <= 0 {
		panic("invalid argument to Int63n")
	}
	return int64(u64() % uint64(n))
}

func Int31n(n int32) int32 {
	if n <= 0 {
		panic("invalid argument to Int31n")
	}
	return int32(u64() % uint64(n))
}

func Intn(n int) int {
	if n <= 0 {
		panic("invalid argument to Intn")
	}
	return int(u64() % uint64(n))
}

func Perm(n int) []int {
	m := make([]int, n)
	for i := range m {
		m[i] = i
	}
	Shuffle(n, func(i, j int) { m[i], m[j] = m[j], m[i] })
	return m
}

func Shuffle(n int, swap func(i, j int)) {
	for i := n - 1; i > 0; i-- {
		swap(i, Intn(i+1))
	}
}

func Read(p []byte) (int, error) {
	for i := range p {
		p[i] = byte(u64())
	}
	return len(p), nil
}
