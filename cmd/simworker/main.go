package main

import (
	"fmt"

	"github.com/anishathalye/porcupine"
	"github.com/protobom/protobom/pkg/reader"
	verifsim "github.com/protobom/protobom/pkg/verifsim"
)

func main() {
	_ = porcupine.Ok
	r := reader.New()
	fmt.Println(r != nil, verifsim.Active())
}
