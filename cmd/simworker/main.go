// simworker is driver and worker in one binary. It is rebuilt by verif.sh for
// every check from /repo's working tree with -race and the instrumentation
// overlay.
package main

import (
	"encoding/json"
	"flag"
	"fmt"
	"os"
	"runtime"
	"strconv"

	"verif/internal/core"
	"verif/internal/engines/concur"
	_ "verif/internal/engines/disk"
	_ "verif/internal/engines/stream"
)

func usage() {
	fmt.Fprintln(os.Stderr, "usage: verif.sh check <property> [--tier quick|thorough] [--runs N] | replay <file> | selftest")
	os.Exit(2)
}

func main() {
	if len(os.Args) < 2 {
		usage()
	}
	exe, _ := os.Executable()
	home := os.Getenv("VERIF_HOME")
	work := os.Getenv("VERIF_WORK")
	if home == "" || work == "" {
		fmt.Fprintln(os.Stderr, "simworker: run through verif.sh")
		os.Exit(2)
	}
	seed := int64(1)
	if s := os.Getenv("VERIF_SEED"); s != "" {
		if v, err := strconv.ParseInt(s, 10, 64); err == nil {
			seed = v
		}
	}
	d := &core.Driver{Exe: exe, Home: home, Work: work, Par: runtime.NumCPU(), Seed: seed, Out: os.Stdout}
	switch os.Args[1] {
	case "worker":
		// the protocol owns the original stdout; anything the code under test prints to
		// os.Stdout (SniffReader prints a warning when Seek fails) goes to stderr instead
		proto := os.Stdout
		os.Stdout = os.Stderr
		if err := core.RunWorker(os.Stdin, proto); err != nil {
			fmt.Fprintln(os.Stderr, "worker:", err)
			os.Exit(3)
		}
	case "probe":
		wdef, rdef := concur.ProbeDefaults() // first: the very first constructor calls of this process
		reg := concur.ProbeRegistries()
		b, _ := json.Marshal(map[string]any{"r": reg.R, "w": reg.W, "wdef": wdef, "rdef": rdef})
		fmt.Println(string(b))
	case "check":
		fs := flag.NewFlagSet("check", flag.ExitOnError)
		tier := fs.String("tier", os.Getenv("VERIF_TIER"), "quick or thorough")
		runs := fs.Int("runs", 0, "override the number of runs")
		if len(os.Args) < 3 {
			usage()
		}
		fs.Parse(os.Args[3:])
		if *tier != "thorough" {
			*tier = "quick"
		}
		d.Prop, d.Tier, d.Runs = os.Args[2], *tier, *runs
		if err := d.Probe(); err != nil {
			fmt.Fprintln(os.Stderr, "verif:", err)
			os.Exit(2)
		}
		os.Exit(d.Check())
	case "gen":
		// gen <property> <idx> [tier]: print the generated scenario
		if len(os.Args) < 4 {
			usage()
		}
		e, err := core.EngineFor(os.Args[2])
		if err != nil {
			fmt.Fprintln(os.Stderr, err)
			os.Exit(2)
		}
		idx, _ := strconv.Atoi(os.Args[3])
		tier := "quick"
		if len(os.Args) > 4 {
			tier = os.Args[4]
		}
		b, _ := json.MarshalIndent(e.Generate(os.Args[2], seed, tier, idx), "", " ")
		fmt.Println(string(b))
	case "exec":
		// exec <scenario file>: run in a fresh worker, print the whole result
		if len(os.Args) < 3 {
			usage()
		}
		if err := d.Probe(); err != nil {
			fmt.Fprintln(os.Stderr, "verif:", err)
			os.Exit(2)
		}
		b, err := os.ReadFile(os.Args[2])
		if err != nil {
			fmt.Fprintln(os.Stderr, err)
			os.Exit(2)
		}
		var sc core.Scenario
		if err := json.Unmarshal(b, &sc); err != nil {
			fmt.Fprintln(os.Stderr, err)
			os.Exit(2)
		}
		r, herr := d.RunScenario(&sc, 0)
		if herr != "" {
			fmt.Fprintln(os.Stderr, herr)
			os.Exit(2)
		}
		for i := range r.Violations {
			if len(r.Violations[i].Report) > 0 && os.Getenv("VERIF_FULL") == "" {
				r.Violations[i].Report = "(set VERIF_FULL=1 to see the report)"
			}
		}
		r.Sched.Schedule = nil
		out, _ := json.MarshalIndent(r, "", " ")
		fmt.Println(string(out))
	case "replay":
		if len(os.Args) < 3 {
			usage()
		}
		if err := d.Probe(); err != nil {
			fmt.Fprintln(os.Stderr, "verif:", err)
			os.Exit(2)
		}
		os.Exit(d.Replay(os.Args[2]))
	default:
		usage()
	}
}
