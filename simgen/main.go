// simgen: instrumenter. Reads the working tree of the protobom repository and
// produces an overlay (for `go build -overlay`) in which every seam the
// simulator needs is present:
//
//   - a preemption point (verifsim.Yield) before every statement
//   - package sync -> verifsim/simsync, os -> verifsim/simos, io/ioutil -> verifsim/simioutil
//   - time.Now/Since/Until/Sleep -> verifsim clock
//   - range over maps -> simulator-chosen order (verifsim.MapKeys)
//   - `go f()` -> verifsim.Go (scheduler-owned task)
//   - util.Exists (release-utils) -> verifsim.UtilExists
//
// Files are rewritten by text splicing so that line numbers are preserved.
// Nothing is written into the repository.
package main

import (
	"bytes"
	"encoding/json"
	"flag"
	"fmt"
	"go/ast"
	"go/constant"
	"go/parser"
	"go/token"
	"go/types"
	"os"
	"path/filepath"
	"sort"
	"strconv"
	"strings"

	"golang.org/x/tools/go/packages"
)

const modPath = "github.com/protobom/protobom"
const simPath = modPath + "/pkg/verifsim"

type edit struct {
	pos int
	del int
	ins string
}

type site struct {
	ID   int    `json:"id"`
	File string `json:"file"`
	Line int    `json:"line"`
	Col  int    `json:"col"`
	Func string `json:"func"`
}

type auditHit struct {
	File string `json:"file"`
	Line int    `json:"line"`
	What string `json:"what"`
}

type report struct {
	Files             int        `json:"files_rewritten"`
	Yields            int        `json:"yield_points"`
	MapRanges         int        `json:"map_ranges_rewritten"`
	UnseamedMapRanges []auditHit `json:"unseamed_map_ranges"`
	GoStmts           int        `json:"go_statements_rewritten"`
	Audit             []auditHit `json:"audit_hits"`
	// exported methods/functions declared in non-generated files of pkg/sbom
	SbomInventory []string            `json:"sbom_inventory"`
	// identifier-like string literals of the driver packages (a dictionary for format-option keys and values)
	DriverStrings []string `json:"driver_strings"`
	// constant strings that index a map with string keys in the driver packages (likely option keys)
	DriverMapKeys []string `json:"driver_map_keys"`
	// integer constants between 1 KiB and 256 MiB per package (likely buffer sizes and limits)
	SizeConstants map[string][]int64 `json:"size_constants"`
	Globals       map[string][]string `json:"package_level_vars"`
}

var targetPkgs = []string{
	"./pkg/reader", "./pkg/writer", "./pkg/formats/...", "./pkg/storage",
	"./pkg/sbom", "./pkg/native", "./pkg/native/serializers/...", "./pkg/native/unserializers",
}

func main() {
	repo := flag.String("repo", "/repo", "repository working tree")
	out := flag.String("out", "", "output directory for rewritten files")
	simrt := flag.String("simrt", "", "directory holding the verifsim runtime sources")
	flag.Parse()
	if *out == "" || *simrt == "" {
		fmt.Fprintln(os.Stderr, "usage: simgen -repo DIR -out DIR -simrt DIR")
		os.Exit(2)
	}
	if err := run(*repo, *out, *simrt); err != nil {
		fmt.Fprintln(os.Stderr, "simgen:", err)
		os.Exit(2)
	}
}

func run(repo, out, simrt string) error {
	repo, _ = filepath.Abs(repo)
	out, _ = filepath.Abs(out)
	simrt, _ = filepath.Abs(simrt)
	if err := os.RemoveAll(out); err != nil {
		return err
	}
	if err := os.MkdirAll(out, 0o755); err != nil {
		return err
	}
	env := []string{}
	for _, e := range os.Environ() {
		if strings.HasPrefix(e, "GOFLAGS=") {
			continue
		}
		env = append(env, e)
	}
	env = append(env, "GOFLAGS=-mod=readonly", "GOPROXY=off", "GOSUMDB=off", "GOTOOLCHAIN=local")
	cfg := &packages.Config{
		Mode: packages.NeedName | packages.NeedFiles | packages.NeedCompiledGoFiles | packages.NeedSyntax |
			packages.NeedTypes | packages.NeedTypesInfo | packages.NeedImports,
		Dir: repo,
		Env: env,
		ParseFile: func(fset *token.FileSet, filename string, src []byte) (*ast.File, error) {
			return parser.ParseFile(fset, filename, src, parser.ParseComments|parser.SkipObjectResolution)
		},
	}
	pkgs, err := packages.Load(cfg, targetPkgs...)
	if err != nil {
		return fmt.Errorf("loading packages: %w", err)
	}
	nerr := 0
	packages.Visit(pkgs, nil, func(p *packages.Package) {
		for _, e := range p.Errors {
			fmt.Fprintf(os.Stderr, "simgen: %s: %v\n", p.PkgPath, e)
			nerr++
		}
	})
	if nerr > 0 {
		return fmt.Errorf("%d package errors; the repository does not type-check", nerr)
	}
	sort.Slice(pkgs, func(i, j int) bool { return pkgs[i].PkgPath < pkgs[j].PkgPath })

	rep := &report{Globals: map[string][]string{}}
	overlay := map[string]string{}
	var sites []site

	for _, p := range pkgs {
		if strings.Contains(p.PkgPath, "fakes") {
			continue
		}
		for i, f := range p.Syntax {
			fn := p.CompiledGoFiles[i]
			if !strings.HasPrefix(fn, repo+string(filepath.Separator)) {
				continue
			}
			if strings.HasSuffix(fn, "_test.go") || ast.IsGenerated(f) {
				continue
			}
			src, err := os.ReadFile(fn)
			if err != nil {
				return err
			}
			rel, _ := filepath.Rel(repo, fn)
			rw := &rewriter{p: p, f: f, src: src, rel: rel, rep: rep, sites: &sites}
			res, err := rw.rewrite()
			if err != nil {
				return fmt.Errorf("%s: %w", rel, err)
			}
			dst := filepath.Join(out, "repo", rel)
			if err := os.MkdirAll(filepath.Dir(dst), 0o755); err != nil {
				return err
			}
			if err := os.WriteFile(dst, res, 0o644); err != nil {
				return err
			}
			overlay[fn] = dst
			rep.Files++
		}
		// package level variables
		scope := p.Types.Scope()
		for _, name := range scope.Names() {
			if v, ok := scope.Lookup(name).(*types.Var); ok {
				pos := p.Fset.Position(v.Pos())
				if strings.HasSuffix(pos.Filename, "_test.go") {
					continue
				}
				rep.Globals[p.PkgPath] = append(rep.Globals[p.PkgPath], name)
			}
		}
		if p.PkgPath == modPath+"/pkg/sbom" {
			rep.SbomInventory = inventory(p)
		}
		if p.PkgPath == modPath+"/pkg/storage" || p.PkgPath == modPath+"/pkg/formats" || p.PkgPath == modPath+"/pkg/reader" || p.PkgPath == modPath+"/pkg/writer" {
			if cs := sizeConstants(p); len(cs) > 0 {
				if rep.SizeConstants == nil {
					rep.SizeConstants = map[string][]int64{}
				}
				rep.SizeConstants[strings.TrimPrefix(p.PkgPath, modPath+"/pkg/")] = cs
			}
		}
		if strings.HasPrefix(p.PkgPath, modPath+"/pkg/native/serializers") || strings.HasPrefix(p.PkgPath, modPath+"/pkg/native/unserializers") {
			rep.DriverStrings = append(rep.DriverStrings, stringLiterals(p)...)
			rep.DriverMapKeys = append(rep.DriverMapKeys, mapKeyConstants(p)...)
		}
	}

	// the runtime: every .go file below simrt becomes a file of the virtual package tree pkg/verifsim
	err = filepath.Walk(simrt, func(path string, info os.FileInfo, err error) error {
		if err != nil {
			return err
		}
		if info.IsDir() || !strings.HasSuffix(path, ".go") || strings.HasSuffix(path, "_test.go") {
			return nil
		}
		rel, _ := filepath.Rel(simrt, path)
		overlay[filepath.Join(repo, "pkg", "verifsim", rel)] = path
		return nil
	})
	if err != nil {
		return err
	}

	rep.Yields = len(sites)
	if err := writeJSON(filepath.Join(out, "overlay.json"), map[string]any{"Replace": overlay}); err != nil {
		return err
	}
	if err := writeJSON(filepath.Join(out, "sites.json"), sites); err != nil {
		return err
	}
	if err := writeJSON(filepath.Join(out, "report.json"), rep); err != nil {
		return err
	}
	fmt.Printf("simgen: %d files, %d yield points, %d map ranges (%d unseamed), %d go statements, %d audit hits\n",
		rep.Files, rep.Yields, rep.MapRanges, len(rep.UnseamedMapRanges), rep.GoStmts, len(rep.Audit))
	for _, a := range rep.Audit {
		fmt.Printf("simgen: AUDIT %s:%d: %s\n", a.File, a.Line, a.What)
	}
	return nil
}

func writeJSON(path string, v any) error {
	b, err := json.MarshalIndent(v, "", " ")
	if err != nil {
		return err
	}
	return os.WriteFile(path, b, 0o644)
}

// sizeConstants lists the values of integer constant expressions between 1 KiB and 256 MiB.
func sizeConstants(p *packages.Package) []int64 {
	seen := map[int64]bool{}
	var out []int64
	for _, f := range p.Syntax {
		pos := p.Fset.Position(f.Pos())
		if strings.HasSuffix(pos.Filename, "_test.go") || ast.IsGenerated(f) || p.TypesInfo == nil {
			continue
		}
		ast.Inspect(f, func(n ast.Node) bool {
			e, ok := n.(ast.Expr)
			if !ok {
				return true
			}
			if tv, ok := p.TypesInfo.Types[e]; ok && tv.Value != nil && tv.Value.Kind() == constant.Int {
				if v, exact := constant.Int64Val(tv.Value); exact && v >= 1024 && v <= 1<<28 && !seen[v] {
					seen[v] = true
					out = append(out, v)
				}
			}
			return true
		})
	}
	sort.Slice(out, func(i, j int) bool { return out[i] < out[j] })
	return out
}

// mapKeyConstants lists constant strings used to index maps with string keys (m["key"], m[KeyConst]).
func mapKeyConstants(p *packages.Package) []string {
	seen := map[string]bool{}
	var out []string
	for _, f := range p.Syntax {
		pos := p.Fset.Position(f.Pos())
		if strings.HasSuffix(pos.Filename, "_test.go") || ast.IsGenerated(f) {
			continue
		}
		ast.Inspect(f, func(n ast.Node) bool {
			ix, ok := n.(*ast.IndexExpr)
			if !ok || p.TypesInfo == nil {
				return true
			}
			xt, ok := p.TypesInfo.Types[ix.X]
			if !ok || xt.Type == nil {
				return true
			}
			mt, ok := xt.Type.Underlying().(*types.Map)
			if !ok {
				return true
			}
			if b, ok := mt.Key().Underlying().(*types.Basic); !ok || b.Info()&types.IsString == 0 {
				return true
			}
			if tv, ok := p.TypesInfo.Types[ix.Index]; ok && tv.Value != nil && tv.Value.Kind() == constant.String {
				v := constant.StringVal(tv.Value)
				if v != "" && len(v) <= 60 && !seen[v] {
					seen[v] = true
					out = append(out, v)
				}
			}
			return true
		})
	}
	sort.Strings(out)
	return out
}

// stringLiterals lists the identifier-like string literals of a package's non-test, non-generated files.
func stringLiterals(p *packages.Package) []string {
	seen := map[string]bool{}
	var out []string
	for _, f := range p.Syntax {
		pos := p.Fset.Position(f.Pos())
		if strings.HasSuffix(pos.Filename, "_test.go") || ast.IsGenerated(f) {
			continue
		}
		ast.Inspect(f, func(n ast.Node) bool {
			if _, ok := n.(*ast.ImportSpec); ok {
				return false
			}
			bl, ok := n.(*ast.BasicLit)
			if !ok || bl.Kind != token.STRING {
				return true
			}
			v, err := strconv.Unquote(bl.Value)
			if err != nil || len(v) < 2 || len(v) > 40 || seen[v] {
				return true
			}
			for _, c := range v {
				if !(c >= 'a' && c <= 'z' || c >= 'A' && c <= 'Z' || c >= '0' && c <= '9' || c == '-' || c == '_' || c == '.' || c == ':') {
					return true
				}
			}
			seen[v] = true
			out = append(out, v)
			return true
		})
	}
	sort.Strings(out)
	return out
}

func inventory(p *packages.Package) []string {
	var inv []string
	for _, f := range p.Syntax {
		pos := p.Fset.Position(f.Pos())
		if strings.HasSuffix(pos.Filename, "_test.go") || ast.IsGenerated(f) {
			continue
		}
		for _, d := range f.Decls {
			fd, ok := d.(*ast.FuncDecl)
			if !ok || !fd.Name.IsExported() {
				continue
			}
			name := fd.Name.Name
			if fd.Recv != nil && len(fd.Recv.List) == 1 {
				t := fd.Recv.List[0].Type
				if s, ok := t.(*ast.StarExpr); ok {
					t = s.X
				}
				if id, ok := t.(*ast.Ident); ok {
					if !id.IsExported() {
						continue
					}
					name = id.Name + "." + name
				}
			}
			inv = append(inv, name)
		}
	}
	sort.Strings(inv)
	return inv
}

type rewriter struct {
	p     *packages.Package
	f     *ast.File
	src   []byte
	rel   string
	rep   *report
	sites *[]site
	edits []edit
	// whether the file needs the util keep-alive
	utilName    string
	runtimeName string
	curFunc     string
}

func (rw *rewriter) off(p token.Pos) int { return rw.p.Fset.Position(p).Offset }

func (rw *rewriter) audit(p token.Pos, what string) {
	rw.rep.Audit = append(rw.rep.Audit, auditHit{rw.rel, rw.p.Fset.Position(p).Line, what})
}

func (rw *rewriter) text(n ast.Node) string { return string(rw.src[rw.off(n.Pos()):rw.off(n.End())]) }

var forbiddenImports = map[string]string{
	"syscall": "", "os/exec": "", "net": "", "net/http": "", "unsafe": "", "C": "", "os/signal": "",
	"golang.org/x/sys/unix": "", "runtime": "ok", "sync/atomic": "ok", "context": "ok",
	"math/rand/v2": "", "io/fs": "ok", "embed": "ok",
}

func (rw *rewriter) pkgOf(id *ast.Ident) string {
	if obj, ok := rw.p.TypesInfo.Uses[id]; ok {
		if pn, ok := obj.(*types.PkgName); ok {
			return pn.Imported().Path()
		}
	}
	return ""
}

func (rw *rewriter) rewrite() ([]byte, error) {
	// imports
	for _, is := range rw.f.Imports {
		path := strings.Trim(is.Path.Value, "\"`")
		repl := ""
		name := ""
		switch path {
		case "os":
			repl, name = simPath+"/simos", "os"
		case "sync":
			repl, name = simPath+"/simsync", "sync"
		case "io/ioutil":
			repl, name = simPath+"/simioutil", "ioutil"
		case "math/rand":
			repl, name = simPath+"/simrand", "rand"
		case "crypto/rand":
			repl, name = simPath+"/simcrand", "rand"
		}
		if repl != "" {
			ins := fmt.Sprintf("%q", repl)
			if is.Name == nil {
				ins = name + " " + ins
			}
			rw.edits = append(rw.edits, edit{rw.off(is.Path.Pos()), len(is.Path.Value), ins})
			continue
		}
		if v, bad := forbiddenImports[path]; bad && v == "" {
			rw.audit(is.Pos(), "import of "+path+" is outside the simulator")
		}
	}
	// the verifsim import goes onto the package clause line
	rw.edits = append(rw.edits, edit{rw.off(rw.f.Name.End()), 0, fmt.Sprintf("; import verifsim %q", simPath)})

	for _, d := range rw.f.Decls {
		rw.visit(d)
	}

	tail := "\nvar _ = verifsim.Yield\n"
	if rw.utilName != "" {
		tail += "var _ = " + rw.utilName + ".Exists\n"
	}
	if rw.runtimeName != "" {
		tail += "var _ = " + rw.runtimeName + ".Version\n"
	}
	rw.edits = append(rw.edits, edit{len(rw.src), 0, tail})

	sort.SliceStable(rw.edits, func(i, j int) bool {
		if rw.edits[i].pos != rw.edits[j].pos {
			return rw.edits[i].pos > rw.edits[j].pos
		}
		return rw.edits[i].del > rw.edits[j].del
	})
	res := append([]byte{}, rw.src...)
	for _, e := range rw.edits {
		var b bytes.Buffer
		b.Write(res[:e.pos])
		b.WriteString(e.ins)
		b.Write(res[e.pos+e.del:])
		res = b.Bytes()
	}
	// must still parse, and line count must be unchanged up to the appended tail
	if _, err := parser.ParseFile(token.NewFileSet(), rw.rel, res, 0); err != nil {
		return nil, fmt.Errorf("rewritten file does not parse: %w", err)
	}
	return res, nil
}


func (rw *rewriter) yieldList(list []ast.Stmt) {
	for _, s := range list {
		id := len(*rw.sites)
		pos := rw.p.Fset.Position(s.Pos())
		*rw.sites = append(*rw.sites, site{id, rw.rel, pos.Line, pos.Column, rw.curFunc})
		rw.edits = append(rw.edits, edit{rw.off(s.Pos()), 0, fmt.Sprintf("verifsim.Yield(%d); ", id)})
	}
}

func (rw *rewriter) visitSwitchBody(b *ast.BlockStmt) {
	for _, c := range b.List {
		rw.visit(c)
	}
}

// visit walks n (n itself included) and records edits.
func (rw *rewriter) visit(n ast.Node) {
	if n == nil {
		return
	}
	ast.Inspect(n, func(m ast.Node) bool {
		switch x := m.(type) {
		case nil:
			return true
		case *ast.FuncDecl:
			old := rw.curFunc
			rw.curFunc = x.Name.Name
			if x.Recv != nil && len(x.Recv.List) == 1 {
				rw.curFunc = strings.TrimPrefix(rw.text(x.Recv.List[0].Type), "*") + "." + rw.curFunc
			}
			if x.Body != nil {
				rw.visit(x.Body)
			}
			rw.curFunc = old
			return false
		case *ast.SwitchStmt:
			rw.visit(x.Init)
			rw.visit(x.Tag)
			rw.visitSwitchBody(x.Body)
			return false
		case *ast.TypeSwitchStmt:
			rw.visit(x.Init)
			rw.visit(x.Assign)
			rw.visitSwitchBody(x.Body)
			return false
		case *ast.SelectStmt:
			rw.audit(x.Pos(), "select statement is outside the simulator")
			rw.visitSwitchBody(x.Body)
			return false
		case *ast.CaseClause:
			for _, e := range x.List {
				rw.visit(e)
			}
			rw.yieldList(x.Body)
			for _, s := range x.Body {
				rw.visit(s)
			}
			return false
		case *ast.CommClause:
			rw.visit(x.Comm)
			rw.yieldList(x.Body)
			for _, s := range x.Body {
				rw.visit(s)
			}
			return false
		case *ast.BlockStmt:
			rw.yieldList(x.List)
			for _, s := range x.List {
				rw.visit(s)
			}
			return false
		case *ast.RangeStmt:
			if rw.rangeStmt(x) {
				rw.visit(x.Body)
				return false
			}
			return true
		case *ast.GoStmt:
			rw.goStmt(x)
			return true
		case *ast.SendStmt:
			rw.audit(x.Pos(), "channel send is outside the simulator")
		case *ast.UnaryExpr:
			if x.Op == token.ARROW {
				rw.audit(x.Pos(), "channel receive is outside the simulator")
			}
		case *ast.SelectorExpr:
			rw.selector(x)
		}
		return true
	})
}

func sideEffectFree(e ast.Expr) bool {
	ok := true
	ast.Inspect(e, func(n ast.Node) bool {
		switch x := n.(type) {
		case *ast.CallExpr, *ast.FuncLit:
			ok = false
		case *ast.UnaryExpr:
			if x.Op == token.ARROW {
				ok = false
			}
		}
		return ok
	})
	return ok
}

func (rw *rewriter) rangeStmt(x *ast.RangeStmt) bool {
	t := rw.p.TypesInfo.TypeOf(x.X)
	if t == nil {
		return false
	}
	if _, isChan := t.Underlying().(*types.Chan); isChan {
		rw.audit(x.Pos(), "range over channel is outside the simulator")
		return false
	}
	if _, isMap := t.Underlying().(*types.Map); !isMap {
		if _, isTP := t.(*types.TypeParam); isTP {
			rw.rep.UnseamedMapRanges = append(rw.rep.UnseamedMapRanges, auditHit{rw.rel, rw.p.Fset.Position(x.Pos()).Line, "range over type parameter"})
		}
		return false
	}
	line := rw.p.Fset.Position(x.Pos()).Line
	if !sideEffectFree(x.X) {
		rw.rep.UnseamedMapRanges = append(rw.rep.UnseamedMapRanges, auditHit{rw.rel, line, "range expression has side effects: " + rw.text(x.X)})
		return false
	}
	if rw.p.Fset.Position(x.Body.Lbrace).Line != line {
		rw.rep.UnseamedMapRanges = append(rw.rep.UnseamedMapRanges, auditHit{rw.rel, line, "range header spans lines"})
		return false
	}
	m := "(" + rw.text(x.X) + ")"
	name := func(e ast.Expr) string {
		if e == nil {
			return ""
		}
		if id, ok := e.(*ast.Ident); ok {
			return id.Name
		}
		return rw.text(e)
	}
	k, v := name(x.Key), name(x.Value)
	var hdr string
	switch {
	case x.Key == nil:
		hdr = fmt.Sprintf("for range verifsim.MapKeys(%s) {", m)
	case x.Tok == token.DEFINE:
		kn := k
		if kn == "_" {
			kn = "vsimK"
		}
		hdr = fmt.Sprintf("for _, %s := range verifsim.MapKeys(%s) {", kn, m)
		if v != "" && v != "_" {
			hdr += fmt.Sprintf(" %s, vsimOK := %s[%s]; if !vsimOK { continue };", v, m, kn)
		} else {
			hdr += fmt.Sprintf(" if _, vsimOK := %s[%s]; !vsimOK { continue };", m, kn)
		}
	default: // assignment form
		hdr = fmt.Sprintf("for _, vsimK := range verifsim.MapKeys(%s) { vsimV, vsimOK := %s[vsimK]; if !vsimOK { continue }; _ = vsimV;", m, m)
		if k != "_" {
			hdr += fmt.Sprintf(" %s = vsimK;", k)
		}
		if v != "" && v != "_" {
			hdr += fmt.Sprintf(" %s = vsimV;", v)
		}
	}
	start := rw.off(x.For)
	end := rw.off(x.Body.Lbrace) + 1
	rw.edits = append(rw.edits, edit{start, end - start, hdr})
	rw.rep.MapRanges++
	return true
}

func (rw *rewriter) goStmt(x *ast.GoStmt) {
	// go f(a, b)  ->  verifsim.Go(func() { f(a, b) })  would change argument evaluation time;
	// keep evaluation order by binding through a closure call only for calls without arguments
	// or function literals; everything else is reported.
	call := x.Call
	if lit, ok := call.Fun.(*ast.FuncLit); ok && len(call.Args) == 0 {
		// go func() {...}()  ->  verifsim.Go(func() {...})
		rw.edits = append(rw.edits, edit{rw.off(x.Go), rw.off(lit.Pos()) - rw.off(x.Go), "verifsim.Go("})
		rw.edits = append(rw.edits, edit{rw.off(lit.End()), rw.off(call.End()) - rw.off(lit.End()), ")"})
		rw.rep.GoStmts++
		return
	}
	if len(call.Args) == 0 {
		rw.edits = append(rw.edits, edit{rw.off(x.Go), rw.off(call.Fun.Pos()) - rw.off(x.Go), "verifsim.Go("})
		rw.edits = append(rw.edits, edit{rw.off(call.Fun.End()), rw.off(call.End()) - rw.off(call.Fun.End()), ")"})
		rw.rep.GoStmts++
		return
	}
	// go f(a, b): the generic helpers evaluate function value and arguments now (as the go statement
	// does) and run the call as a scheduler-owned task. Supported: no results, at most 4 parameters,
	// not variadic, not a builtin.
	if sig, ok := rw.p.TypesInfo.TypeOf(call.Fun).(*types.Signature); ok && sig.Results().Len() == 0 && !sig.Variadic() &&
		len(call.Args) == sig.Params().Len() && len(call.Args) <= 4 && !call.Ellipsis.IsValid() {
		rw.edits = append(rw.edits, edit{rw.off(x.Go), rw.off(call.Fun.Pos()) - rw.off(x.Go), fmt.Sprintf("verifsim.Go%d(", len(call.Args))})
		rw.edits = append(rw.edits, edit{rw.off(call.Lparen), 1, ", "})
		rw.rep.GoStmts++
		return
	}
	rw.audit(x.Pos(), "go statement (variadic, with results, a builtin or more than 4 arguments) is outside the simulator")
}

var clockFuncs = map[string]bool{"Now": true, "Since": true, "Until": true, "Sleep": true}
var clockForbidden = map[string]bool{"After": true, "AfterFunc": true, "NewTimer": true, "NewTicker": true, "Tick": true}
var filepathFS = map[string]bool{"Walk": true, "WalkDir": true, "Glob": true, "EvalSymlinks": true, "Abs": false}

func (rw *rewriter) selector(x *ast.SelectorExpr) {
	id, ok := x.X.(*ast.Ident)
	if !ok {
		return
	}
	switch rw.pkgOf(id) {
	case "time":
		if clockFuncs[x.Sel.Name] {
			rw.edits = append(rw.edits, edit{rw.off(x.Pos()), rw.off(x.End()) - rw.off(x.Pos()), "verifsim." + x.Sel.Name})
		} else if clockForbidden[x.Sel.Name] {
			rw.audit(x.Pos(), "time."+x.Sel.Name+" (timers) is outside the simulator")
		}
	case "sigs.k8s.io/release-utils/util":
		if x.Sel.Name == "Exists" {
			rw.edits = append(rw.edits, edit{rw.off(x.Pos()), rw.off(x.End()) - rw.off(x.Pos()), "verifsim.UtilExists"})
			rw.utilName = id.Name
		} else {
			rw.audit(x.Pos(), "release-utils util."+x.Sel.Name+" may touch the real filesystem")
		}
	case "runtime":
		// the number of processors is an input of the simulation, not of the machine it runs on
		if x.Sel.Name == "GOMAXPROCS" || x.Sel.Name == "NumCPU" || x.Sel.Name == "Gosched" {
			rw.edits = append(rw.edits, edit{rw.off(x.Pos()), rw.off(x.End()) - rw.off(x.Pos()), "verifsim.Runtime" + x.Sel.Name})
			rw.runtimeName = id.Name
		}
	case "path/filepath":
		if filepathFS[x.Sel.Name] {
			rw.audit(x.Pos(), "filepath."+x.Sel.Name+" touches the real filesystem")
		}
	}
}
