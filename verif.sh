#!/bin/sh
# Entry point of every check: regenerates the instrumentation overlay from
# /repo's current working tree, rebuilds the simulation worker (-race, with the
# overlay) and hands over to it. Exit status: 0 property held, 1 violation,
# 2 harness/build trouble (never a verdict).
cd "$(dirname "$0")" || exit 2
export GOFLAGS=-mod=mod GOPROXY=off GOSUMDB=off GOTOOLCHAIN=local
export VERIF_HOME="$(pwd)"
REPO="${VERIF_REPO:-/repo}"
WORK="${VERIF_WORK:-$VERIF_HOME/.work}"
export VERIF_REPO="$REPO" VERIF_WORK="$WORK"
mkdir -p "$WORK" bin
build() {
  if [ ! -x bin/simgen ] || [ -n "$(find simgen -name '*.go' -newer bin/simgen 2>/dev/null)" ]; then
    (cd simgen && go build -o ../bin/simgen .) || { echo "verif: cannot build simgen" >&2; exit 2; }
  fi
  bin/simgen -repo "$REPO" -out "$WORK/overlay" -simrt "$VERIF_HOME/simrt" >"$WORK/simgen.log" 2>&1 || {
    cat "$WORK/simgen.log" >&2; echo "verif: instrumentation failed (harness/build trouble, not a verdict)" >&2; exit 2; }
  if grep -q '^simgen: AUDIT' "$WORK/simgen.log"; then
    cat "$WORK/simgen.log" >&2
    echo "verif: the repository contains constructs the simulator does not own; refusing to give a verdict" >&2
    exit 2
  fi
  MODFILE=""
  if [ "$REPO" != "/repo" ]; then
    # another copy of the repository (background sweeps on a snapshot): same module graph, other replace target
    sed "s#=> /repo#=> $REPO#" go.mod >"$WORK/go.mod" && cp go.sum "$WORK/go.sum" && MODFILE="-modfile=$WORK/go.mod"
  fi
  go build $MODFILE -race -overlay "$WORK/overlay/overlay.json" -o "$WORK/simworker" ./cmd/simworker 2>"$WORK/build.log" || {
    cat "$WORK/build.log" >&2; echo "verif: worker build failed (harness/build trouble, not a verdict)" >&2; exit 2; }
}
case "$1" in
  build) build; exit 0 ;;
  nobuild) shift ;;
  *) build ;;
esac
export GORACE="halt_on_error=0 exitcode=0 atexit_sleep_ms=0"
exec "$WORK/simworker" "$@"
