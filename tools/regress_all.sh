#!/bin/bash
# Regression over every seeded change (and the behaviour-preserving refactorings, if present):
# works on a private copy of /verif and a private worktree of /repo, so /repo and /verif stay free.
#   tools/regress_all.sh [logfile [id ...]]     (no ids: all of seeded/)
set -u
LOG=${1:-/tmp/regress_all.log}
SRC=$(cd "$(dirname "$0")/.." && pwd)
COPY=/tmp/verif-regress
REPO=/tmp/repo-regress
rm -rf $COPY; mkdir -p $COPY
rsync -a --exclude .work --exclude .git --exclude replays $SRC/ $COPY/
git -C /repo worktree remove --force $REPO 2>/dev/null
git -C /repo worktree add -q --detach $REPO HEAD || exit 2
cd $COPY
export GOFLAGS=-mod=mod GOPROXY=off GOSUMDB=off GOTOOLCHAIN=local
export VERIF_REPO=$REPO VERIF_WORK=$COPY/.work
: > $LOG
shift 2>/dev/null
if [ $# -gt 0 ]; then DIRS=""; for i in "$@"; do DIRS="$DIRS $SRC/seeded/$i/"; done; else DIRS=$(ls -d $SRC/seeded/*/); fi
for d in $DIRS; do
  id=$(basename $d); p=$(jq -r .property $d/meta.json)
  git -C $REPO checkout -q -- . ; git -C $REPO clean -fdq
  git -C $REPO apply $d/patch.diff || { echo "$id $p PATCH-FAILED" >> $LOG; continue; }
  out=$(timeout 3000 ./verif.sh check $p --tier quick 2>&1); rc=$?
  echo "$id $p exit=$rc $(echo "$out" | grep 'signature:' | head -2 | sed 's/(seen.*//' | tr -s ' ' | tr '\n' ';')" >> $LOG
done
git -C $REPO checkout -q -- . ; git -C $REPO clean -fdq
echo DONE >> $LOG
git -C /repo worktree remove --force $REPO
