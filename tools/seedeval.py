#!/usr/bin/env python3
"""Confirms a seeded change produced by a sub-agent and runs the check against it.
  tools/seedeval.py <worktree> <variant dir> <property> <demo dest relative path> <go test args...>
Steps (all in the scratch worktree, then /repo for the check):
  1. demo passes on the clean worktree
  2. patch applies; go build; existing suite passes with the patch
  3. demo fails with the patch
  4. git -C /repo apply patch; ./verif.sh check <property>; git -C /repo checkout -- .
Prints one JSON line with the outcome."""
import subprocess, sys, os, json, shutil, time

def sh(cmd, cwd, timeout=1800):
    env = dict(os.environ, GOFLAGS="-mod=mod", GOPROXY="off", GOSUMDB="off", GOTOOLCHAIN="local")
    try:
        r = subprocess.run(cmd, shell=True, cwd=cwd, env=env, capture_output=True, text=True, timeout=timeout)
        return r.returncode, r.stdout + r.stderr
    except subprocess.TimeoutExpired as e:
        return 124, "timeout"

def main():
    wt, var, prop, dest = sys.argv[1:5]
    testargs = " ".join(sys.argv[5:])
    vdir = os.path.join(wt, "_seeded", var)
    patch = os.path.join(vdir, "patch.diff")
    out = {"property": prop, "variant": var, "worktree": wt}
    sh("git checkout -- . && git clean -fdq -e _seeded", wt)
    destp = os.path.join(wt, dest)
    os.makedirs(os.path.dirname(destp), exist_ok=True)
    shutil.copy(os.path.join(vdir, "demo_test.go"), destp)
    rc, o = sh(f"go test -vet=off -count=1 {testargs}", wt)
    out["demo_without_change"] = "pass" if rc == 0 else "FAIL"
    rc, o = sh(f"git apply {patch}", wt)
    out["patch_applies"] = rc == 0
    rc, o = sh("go build ./...", wt)
    out["builds"] = rc == 0
    rc, o = sh(f"go test -vet=off -count=1 {testargs}", wt)
    out["demo_with_change"] = "fail" if rc != 0 else "PASS"
    out["demo_tail"] = o[-400:]
    os.remove(destp)
    rc, o = sh("go test -vet=off -count=1 ./... 2>&1 | grep -c '^FAIL\\|^---  FAIL\\|^--- FAIL'", wt)
    out["suite_with_change"] = "pass" if o.strip().splitlines()[-1] == "0" else "FAIL: " + o[-300:]
    sh("git checkout -- . && git clean -fdq -e _seeded", wt)
    # the check
    rc, o = sh("git status --porcelain", "/repo")
    if o.strip():
        out["check"] = "skipped: /repo dirty"
        print(json.dumps(out)); return
    rc, o = sh(f"git apply {patch}", "/repo")
    try:
        t0 = time.time()
        rc, o = sh(f"./verif.sh check {prop} --tier quick", os.path.dirname(os.path.dirname(os.path.abspath(__file__))), timeout=2400)
        out["check_exit"] = rc
        out["check_s"] = round(time.time() - t0)
        out["check_sigs"] = [l.strip()[11:150] for l in o.splitlines() if l.strip().startswith("signature:")][:6]
        if rc not in (0, 1):
            out["check_tail"] = o[-500:]
    finally:
        sh("git checkout -- . && git clean -fdq", "/repo")
        # the evidence files of /verif describe the unchanged tree only
        sh("git checkout -- evidence", os.path.dirname(os.path.dirname(os.path.abspath(__file__))))
    print(json.dumps(out))

if __name__ == "__main__":
    main()
