#!/usr/bin/env python3
"""Sensitivity suite: applies small property-breaking edits to /repo's working
tree (one at a time), runs the quick check of the property and reverts.
Every mutation must be detected (exit status 1). Usage:
    tools/sensitivity.py [name-substring ...]
Never leaves /repo modified (git checkout -- . after every mutation)."""
import subprocess, sys, os, time

REPO = "/repo"
VERIF = os.path.dirname(os.path.dirname(os.path.abspath(__file__)))

# Edits tried and dropped because they do NOT break the property (the check is right to stay quiet):
#   c07 "cache the first creation timestamp": the property allows the creation timestamp to differ
#   c19 "swallow the read error": the identifier check still turns the empty result into an error
#   c20 "drop the identifier check": with temp-file-plus-rename no partial entry is ever visible
# (name, property, file, old, new)
M = [
 ("c17-register-without-lock", "C17", "pkg/reader/reader.go",
  "func RegisterUnserializer(format formats.Format, u native.Unserializer) {\n\tregMtx.Lock()\n\tunserializers[format] = u\n\tregMtx.Unlock()\n}",
  "func RegisterUnserializer(format formats.Format, u native.Unserializer) {\n\tunserializers[format] = u\n}"),
 ("c17-get-two-lookups", "C17", "pkg/reader/reader.go",
  "\tregMtx.RLock()\n\tu, ok := unserializers[format]\n\tregMtx.RUnlock()\n\tif ok {\n\t\treturn u, nil\n\t}",
  "\tregMtx.RLock()\n\t_, ok := unserializers[format]\n\tregMtx.RUnlock()\n\tif ok {\n\t\tregMtx.RLock()\n\t\tu := unserializers[format]\n\t\tregMtx.RUnlock()\n\t\treturn u, nil\n\t}"),
 ("c17-once-replaced-by-flag", "C17", "pkg/writer/writer.go",
  "\tonce.Do(func() {", "\tif initialized {\n\t\treturn\n\t}\n\tinitialized = true\n\tfunc() {"),
 ("c18-hand-out-defaults", "C18", "pkg/writer/writer.go", "Options: defaultOptions.copy(),", "Options: defaultOptions,"),
 ("c18-share-format-options-map", "C18", "pkg/reader/options.go",
  "\t\tformatOptions:      make(map[string]interface{}, len(o.formatOptions)),", "\t\tformatOptions:      o.formatOptions,"),
 ("c11-sort-in-getnodesbyname", "C11", "pkg/sbom/nodelist.go",
  "func (nl *NodeList) GetNodesByName(name string) []*Node {\n\tret := []*Node{}",
  "func (nl *NodeList) GetNodesByName(name string) []*Node {\n\tsort.Slice(nl.Nodes, func(i, j int) bool { return nl.Nodes[i].Id < nl.Nodes[j].Id })\n\tret := []*Node{}"),
 ("c11-flatstring-sorts-in-place", "C11", "pkg/sbom/edge.go", "\ttos := slices.Clone(e.To)\n", "\ttos := e.To\n"),
 ("c12-share-hashes-in-node-copy", "C12", "pkg/sbom/node.go", "\t\tHashes:             maps.Clone(n.Hashes),", "\t\tHashes:             n.Hashes,"),
 ("c12-union-appends-uncopied", "C12", "pkg/sbom/nodelist.go", "\t\t\tret.Nodes = append(ret.Nodes, n.Copy())\n\t\t}\n\t}\n\n\t// Add or append", "\t\t\tret.Nodes = append(ret.Nodes, n)\n\t\t}\n\t}\n\n\t// Add or append"),
 ("c12-extref-copy-shares-hashes", "C12", "pkg/sbom/externalreference.go", "\t\tHashes:    maps.Clone(e.Hashes),", "\t\tHashes:    e.Hashes,"),
 ("c07-drop-nil-guard", "C07", "pkg/native/serializers/serializer_spdx23.go",
  "\tif bom.NodeList == nil {\n\t\treturn nil, errors.New(\"document node list is nil, unable to serialize to SPDX 2.3\")\n\t}\n", ""),
 ("c19-raw-identifier-filename", "C19", "pkg/storage/filesystem.go",
  "\treturn fmt.Sprintf(\"%x.protobom\", sha256.Sum256([]byte(documentId))), nil", "\t_ = sha256.Sum256\n\treturn documentId + \".protobom\", nil"),
 ("c19-ignore-noclobber", "C19", "pkg/storage/filesystem.go", "\tif opts.NoClobber && util.Exists(", "\tif false && opts.NoClobber && util.Exists("),
 ("c19-exit-on-error", "C19", "pkg/storage/filesystem.go",
  "\t\treturn nil, fmt.Errorf(\"unmarshaling protobom data: %w\", err)", "\t\tos.Exit(3)"),
 ("c19-drop-id-check", "C19", "pkg/storage/filesystem.go", "\tif bom.GetMetadata().GetId() != id {", "\tif false {"),
 ("c20-write-in-place", "C20", "pkg/storage/filesystem.go",
  "\tif err := writeFileAtomic(fs.Options.Path, filename, out); err != nil {", "\tif err := os.WriteFile(filepath.Join(fs.Options.Path, filename), out, 0o644); err != nil {"),
 ("c20-rename-before-complete", "C20", "pkg/storage/filesystem.go",
  "\tif _, err := tmp.Write(data); err != nil {", "\tif err := os.Rename(tmp.Name(), filepath.Join(dir, name)); err != nil {\n\t\treturn err\n\t}\n\tif _, err := tmp.Write(data); err != nil {"),
 ("c06-no-rewind", "C06", "pkg/formats/sniffer.go",
  "\t\t_, err := f.Seek(0, 0)\n\t\tif err != nil {\n\t\t\tfmt.Printf", "\t\tvar err error\n\t\tif err != nil {\n\t\t\tfmt.Printf"),
 ("c06-wrong-constant", "C06", "pkg/formats/sniffer.go", "\t\t\t\treturn SPDX23JSON, nil", "\t\t\t\treturn SPDX22JSON, nil"),
 ("c06-lenient-version", "C06", "pkg/formats/sniffer.go", "\t\t\tcase \"1.5\":", "\t\t\tcase \"1.5\", \"1.6\":"),
]

EXTRA = {
 "c12-extref-copy-shares-hashes": ("pkg/sbom/externalreference.go", "\treturn &ExternalReference{\n", "\t_ = maps.Clone[map[int32]string]\n\treturn &ExternalReference{\n"),
 "c17-once-replaced-by-flag": ("pkg/writer/writer.go", "\t\tserializers.Store(formats.SPDX23JSON, drivers.NewSPDX23())\n\t})", "\t\tserializers.Store(formats.SPDX23JSON, drivers.NewSPDX23())\n\t}()"),
 "c07-cache-first-timestamp": ("pkg/native/serializers/serializer_spdx23.go", "func NewSPDX23() *SPDX23 {",
   "var firstCreatedValue string\n\nfunc firstCreated() string {\n\tif firstCreatedValue == \"\" {\n\t\tfirstCreatedValue = time.Now().UTC().Format(time.RFC3339)\n\t}\n\treturn firstCreatedValue\n}\n\nfunc NewSPDX23() *SPDX23 {"),
}
EXTRA2 = {
 "c17-once-replaced-by-flag": ("pkg/writer/writer.go", "\tonce           sync.Once\n", "\tonce           sync.Once\n\tinitialized    bool\n"),
}

def sh(cmd, **kw):
    return subprocess.run(cmd, shell=True, capture_output=True, text=True, **kw)

def replace(path, old, new):
    p = os.path.join(REPO, path)
    s = open(p).read()
    if old not in s:
        raise SystemExit(f"mutation text not found in {path}: {old[:60]!r}")
    open(p, "w").write(s.replace(old, new, 1))

def main():
    sel = sys.argv[1:]
    env = dict(os.environ, GOFLAGS="-mod=mod", GOPROXY="off", GOSUMDB="off", GOTOOLCHAIN="local")
    if sh("git status --porcelain", cwd=REPO).stdout.strip():
        raise SystemExit("refusing to run: /repo has uncommitted changes")
    bad = 0
    for name, prop, path, old, new in M:
        if sel and not any(s in name for s in sel):
            continue
        try:
            replace(path, old, new)
            for ex in (EXTRA, EXTRA2):
                if name in ex:
                    replace(*ex[name])
            b = subprocess.run("go build ./... && go vet ./pkg/... >/dev/null 2>&1; go build ./...", shell=True, cwd=REPO, env=env, capture_output=True, text=True)
            if b.returncode != 0:
                print(f"{name:36s} {prop}  MUTANT DOES NOT COMPILE\n{b.stderr[-600:]}")
                bad += 1
                continue
            t = subprocess.run("go test -vet=off -count=1 ./... 2>&1 | grep -c '^FAIL'", shell=True, cwd=REPO, env=env, capture_output=True, text=True)
            tests = "tests-pass" if t.stdout.strip() == "0" else "TESTS-FAIL"
            t0 = time.time()
            r = subprocess.run(f"./verif.sh check {prop} --tier quick", shell=True, cwd=VERIF, env=env, capture_output=True, text=True)
            sigs = [l.strip() for l in r.stdout.splitlines() if l.strip().startswith("signature:")]
            verdict = {0: "MISSED", 1: "caught", 2: "EXIT2"}.get(r.returncode, str(r.returncode))
            if r.returncode != 1:
                bad += 1
            print(f"{name:36s} {prop}  {verdict:7s} {tests} {time.time()-t0:5.0f}s  {sigs[0][:110] if sigs else r.stderr[-300:].strip()}")
        finally:
            sh("git checkout -- .", cwd=REPO)
        sys.stdout.flush()
    sys.exit(1 if bad else 0)

if __name__ == "__main__":
    main()
