#!/bin/bash
# Specificity run: behaviour-preserving refactorings must give exit 0 in the checks that look at the code they touch.
#   tools/refactor_run.sh <dir with sNN/patch.diff> <logfile> "<id>:<P1,P2,..>" ...
set -u
DIR=$1; LOG=$2; shift 2
SRC=$(cd "$(dirname "$0")/.." && pwd)
COPY=/tmp/verif-ref
REPO=/tmp/repo-ref
rm -rf $COPY; mkdir -p $COPY
rsync -a --exclude .work --exclude .git --exclude replays $SRC/ $COPY/
git -C /repo worktree remove --force $REPO 2>/dev/null
git -C /repo worktree add -q --detach $REPO HEAD || exit 2
cd $COPY
export GOFLAGS=-mod=mod GOPROXY=off GOSUMDB=off GOTOOLCHAIN=local
export VERIF_REPO=$REPO VERIF_WORK=$COPY/.work
: > $LOG
for spec in "$@"; do
  id=${spec%%:*}; props=${spec#*:}
  git -C $REPO checkout -q -- . ; git -C $REPO clean -fdq
  git -C $REPO apply $DIR/$id/patch.diff || { echo "$id PATCH-FAILED" >> $LOG; continue; }
  for p in ${props//,/ }; do
    out=$(timeout 3000 ./verif.sh check $p --tier quick 2>&1); rc=$?
    echo "$id $p exit=$rc $(echo "$out" | grep 'signature:\|harness\|AUDIT\|nondetermin' | head -3 | cut -c1-200 | tr '\n' ';')" >> $LOG
  done
done
git -C $REPO checkout -q -- . ; git -C $REPO clean -fdq
echo DONE >> $LOG
git -C /repo worktree remove --force $REPO
